//! C13 Bound parameters behave like the equivalent literals.
//!
//! Differential on twin databases: database A executes a statement template with bound
//! parameters through one of the parameter paths; database B executes the harness's own
//! literal rendering of the same statement with `execute`. Results and the resulting table
//! contents must be equal; in particular bound text is data (no injection: the table set
//! and contents after the call equal the literal twin's).

use proptest::prelude::*;
use serde::{Deserialize, Serialize};
use turdb::OwnedValue;
use vcore::{Check, Ctx, Outcome, Tier};

use crate::hist::{sort_rows, Row, Val};
use crate::world::{conv_rows, Db};

#[derive(Debug, Clone, PartialEq, Serialize, Deserialize)]
pub enum P {
    Null,
    Int(i64),
    /// f64 bits
    Float(u64),
    Text(String),
    Bool(bool),
}

impl P {
    fn owned(&self) -> OwnedValue {
        match self {
            P::Null => OwnedValue::Null,
            P::Int(i) => OwnedValue::Int(*i),
            P::Float(b) => OwnedValue::Float(f64::from_bits(*b)),
            P::Text(s) => OwnedValue::Text(s.clone()),
            P::Bool(b) => OwnedValue::Bool(*b),
        }
    }
    fn literal(&self) -> String {
        match self {
            P::Null => "NULL".into(),
            // negative numbers are parenthesised so that `x -?` with -3 reads `x -(-3)`
            P::Int(i) => if *i < 0 { format!("({})", i) } else { i.to_string() },
            P::Float(b) => {
                let f = f64::from_bits(*b);
                if f < 0.0 { format!("({:?})", f) } else { format!("{:?}", f) }
            }
            P::Text(s) => format!("'{}'", s.replace('\'', "''")),
            P::Bool(b) => if *b { "TRUE".into() } else { "FALSE".into() },
        }
    }
}

#[derive(Debug, Clone, Copy, PartialEq, Serialize, Deserialize)]
pub enum Route {
    ExecuteWithParams,
    PreparedExecute,
    PreparedQuery,
}

/// template id + parameter kinds it needs (i = int-like, t = text, f = float, a = any)
const TEMPLATES: &[(&str, &str)] = &[
    ("SELECT * FROM t WHERE a = ?", "i"),
    ("SELECT * FROM t WHERE b = ?", "t"),
    ("SELECT * FROM t WHERE a > ? AND b <> ?", "it"),
    ("SELECT * FROM t WHERE a IN (?, ?, ?)", "iii"),
    ("SELECT * FROM t WHERE c <= ?", "f"),
    ("SELECT id, a FROM t WHERE a > 5 -?", "i"),
    ("SELECT * FROM t WHERE a = $1 OR id = $2", "ii"),
    ("SELECT * FROM t WHERE a = $1 OR id = $1", "i"),
    ("SELECT * FROM t WHERE b = ? OR b = ?", "tt"),
    ("SELECT id FROM t WHERE a >= ? ORDER BY id LIMIT 3", "i"),
    ("INSERT INTO t VALUES (?, ?, ?, ?)", "Iitf"),
    ("INSERT INTO t (id, b) VALUES (?, ?)", "It"),
    ("UPDATE t SET b = ? WHERE id = ?", "ti"),
    ("UPDATE t SET a = ?, b = ? WHERE a = ?", "iti"),
    ("UPDATE t SET c = ? WHERE b = ?", "ft"),
    ("DELETE FROM t WHERE b = ?", "t"),
    ("DELETE FROM t WHERE id = ? OR a = ?", "ii"),
];

#[derive(Debug, Clone, Serialize, Deserialize)]
pub struct Case {
    pub template: u8,
    pub route: Route,
    /// parameter sets: the statement is executed once per set (second run of a prepared
    /// statement takes the cached-plan path)
    pub runs: Vec<Vec<P>>,
}

pub struct C13 {
    pub gates: std::collections::BTreeSet<String>,
}

const SEED_ROWS: &[&str] = &[
    "(1, 1, 'a', 0.5)",
    "(2, 2, 'b', 1.5)",
    "(3, 3, 'it''s', -2.0)",
    "(4, NULL, NULL, NULL)",
    "(5, 7, 'x -- y', 100.0)",
    "(6, 7, '', 0.0)",
    "(7, -3, 'é', 2.25)",
    "(8, 10, 'a', 1e20)",
    // one row per tricky text of the parameter pool, so that an equality predicate on a bound text has a row to
    // find (a mis-rendered parameter then changes the result instead of turning "no row" into "no row")
    "(9, 20, '''''', 3.5)",
    "(10, 21, '''', 4.5)",
    "(11, 22, '--', 5.5)",
    "(12, 23, 'semi;colon', 6.5)",
    "(13, 24, '''; DROP TABLE keepme; --', 7.5)",
    "(14, 25, 'a'' OR ''1''=''1', 8.5)",
    "(15, 26, '/* c */ x', 9.5)",
    "(17, 28, 'q? $1 ?', 11.5)",
];

fn setup(db: &Db) -> Result<(), String> {
    db.h().execute("CREATE TABLE t (id INT PRIMARY KEY, a INT, b TEXT, c DOUBLE)").map_err(|e| e.to_string())?;
    db.h().execute("CREATE INDEX t_a ON t (a)").map_err(|e| e.to_string())?;
    db.h().execute(&format!("INSERT INTO t VALUES {}", SEED_ROWS.join(", "))).map_err(|e| e.to_string())?;
    db.h().execute("CREATE TABLE keepme (k INT)").map_err(|e| e.to_string())?;
    db.h().execute("INSERT INTO keepme VALUES (42)").map_err(|e| e.to_string())?;
    Ok(())
}

/// replace placeholders by literals (the reference rendering; never touches string
/// contents of the template because templates contain no quotes)
fn render(template: &str, params: &[P]) -> String {
    let mut out = String::new();
    let b = template.as_bytes();
    let mut i = 0;
    let mut next = 0usize;
    while i < b.len() {
        if b[i] == b'?' {
            out.push_str(&params.get(next).map(|p| p.literal()).unwrap_or_else(|| "NULL".into()));
            next += 1;
            i += 1;
        } else if b[i] == b'$' && i + 1 < b.len() && b[i + 1].is_ascii_digit() {
            let n = (b[i + 1] - b'0') as usize;
            out.push_str(&params.get(n - 1).map(|p| p.literal()).unwrap_or_else(|| "NULL".into()));
            i += 2;
        } else {
            out.push(b[i] as char);
            i += 1;
        }
    }
    out
}

#[derive(Debug, PartialEq)]
enum Res {
    Rows(Vec<Row>),
    Affected(usize),
    Err,
    Other,
}

fn norm(r: eyre::Result<turdb::ExecuteResult>, ordered: bool) -> (Res, String) {
    match r {
        Ok(turdb::ExecuteResult::Select { rows, .. }) => {
            let mut v = conv_rows(&rows);
            if !ordered {
                sort_rows(&mut v);
            }
            (Res::Rows(v), String::new())
        }
        Ok(turdb::ExecuteResult::Insert { rows_affected, .. }) | Ok(turdb::ExecuteResult::Update { rows_affected, .. }) | Ok(turdb::ExecuteResult::Delete { rows_affected, .. }) => (Res::Affected(rows_affected), String::new()),
        Ok(_) => (Res::Other, String::new()),
        Err(e) => (Res::Err, e.to_string()),
    }
}

fn state(db: &Db) -> Vec<(String, Result<Vec<Row>, String>)> {
    ["SELECT * FROM t", "SELECT * FROM keepme", "SELECT id FROM t WHERE a = 7", "SELECT COUNT(*) FROM t"]
        .iter()
        .map(|q| {
            (q.to_string(), db.query(q).map(|mut r| {
                sort_rows(&mut r);
                r
            }))
        })
        .collect()
}

fn tags(case: &Case, template: &str) -> Vec<&'static str> {
    let mut t = Vec::new();
    let texts: Vec<&String> = case.runs.iter().flatten().filter_map(|p| if let P::Text(s) = p { Some(s) } else { None }).collect();
    if texts.iter().any(|s| s.contains('\'')) {
        t.push("text_with_quote");
    }
    if texts.iter().any(|s| s.contains("--") || s.contains("/*")) {
        t.push("text_with_comment_marker");
    }
    if texts.iter().any(|s| s.contains(';')) {
        t.push("text_with_semicolon");
    }
    if texts.iter().any(|s| s.contains('\\')) {
        t.push("text_with_backslash");
    }
    if texts.iter().any(|s| s.contains('?') || s.contains('$')) {
        t.push("text_with_placeholder_char");
    }
    if template.contains("-?") && case.runs.iter().flatten().any(|p| matches!(p, P::Int(i) if *i < 0)) {
        t.push("negative_after_minus");
    }
    if case.runs.iter().flatten().any(|p| matches!(p, P::Null)) {
        t.push("null_param");
    }
    if case.runs.iter().flatten().any(|p| matches!(p, P::Float(_))) {
        t.push("float_param");
    }
    if case.runs.len() > 1 && case.route != Route::ExecuteWithParams {
        t.push("cached_plan_run");
    }
    if template.contains('$') {
        t.push("positional");
    }
    // placeholders inside a WHERE clause, per statement kind and route
    let kind = template.split(' ').next().unwrap_or("");
    if let Some(w) = template.find(" WHERE ") {
        if template[w..].contains('?') || template[w..].contains('$') {
            t.push(match (kind, case.route) {
                ("SELECT", Route::ExecuteWithParams) => "where_param_select_execute_with_params",
                ("SELECT", Route::PreparedExecute) => "where_param_select_prepared_execute",
                ("SELECT", Route::PreparedQuery) => "where_param_select_prepared_query",
                ("DELETE", Route::ExecuteWithParams) => "where_param_delete_execute_with_params",
                ("DELETE", _) => "where_param_delete_prepared_execute",
                ("UPDATE", Route::ExecuteWithParams) => "where_param_update_execute_with_params",
                ("UPDATE", _) => "where_param_update_prepared_execute",
                _ => "where_param_other",
            });
        }
    }
    t
}

impl C13 {
    fn go(&self, case: &Case, gates: &std::collections::BTreeSet<String>) -> Outcome {
        let mut out = Outcome::ok();
        let (template, _kinds) = TEMPLATES[case.template as usize % TEMPLATES.len()];
        let is_select = template.starts_with("SELECT");
        let route = if !is_select && case.route == Route::PreparedQuery { Route::PreparedExecute } else { case.route };
        let tg = tags(case, template);
        if let Some(g) = tg.iter().find(|g| gates.contains(**g)) {
            return out.class(format!("gated:{}", g));
        }
        let stmt_kind = template.split(' ').next().unwrap_or("?");
        let tagstr = if tg.is_empty() { "-".to_string() } else { tg.join("+") };
        let sig = |facet: &str| format!("C13|{:?}|{}|{}|{}", route, stmt_kind, facet, tagstr);
        let (a, b) = (Db::create("C13a"), Db::create("C13b"));
        for d in [&a, &b] {
            if let Err(e) = setup(d) {
                return out.fail("C13|setup", e);
            }
        }
        let prepared = if route != Route::ExecuteWithParams {
            match a.h().prepare(template) {
                Ok(p) => Some(p),
                Err(e) => return out.fail(sig("prepare_failed"), format!("prepare({}) -> {}", template, e)),
            }
        } else {
            None
        };
        let ordered = template.contains("ORDER BY");
        for (k, params) in case.runs.iter().enumerate() {
            let lit_sql = render(template, params);
            let owned: Vec<OwnedValue> = params.iter().map(|p| p.owned()).collect();
            let ra = match route {
                Route::ExecuteWithParams => norm(a.h().execute_with_params(template, &owned), ordered),
                Route::PreparedExecute | Route::PreparedQuery => {
                    let st = prepared.as_ref().unwrap();
                    let mut bound: Option<turdb::BoundStatement> = None;
                    for v in &owned {
                        bound = Some(match bound {
                            None => st.bind(v.clone()),
                            Some(bs) => bs.bind(v.clone()),
                        });
                    }
                    let Some(bs) = bound else { return out.class("no_params") };
                    if route == Route::PreparedQuery {
                        match bs.query(a.h()) {
                            Ok(rows) => {
                                let mut v = conv_rows(&rows);
                                if !ordered {
                                    sort_rows(&mut v);
                                }
                                (Res::Rows(v), String::new())
                            }
                            Err(e) => (Res::Err, e.to_string()),
                        }
                    } else {
                        norm(bs.execute(a.h()), ordered)
                    }
                }
            };
            let rb = norm(b.h().execute(&lit_sql), ordered);
            if ra.0 != rb.0 {
                return out.fail(
                    sig(&format!("result_differs|run{}", k.min(1))),
                    format!("template {:?} params {:?}\n  with parameters: {:?} {}\n  with literals ({}): {:?} {}", template, params, ra.0, ra.1, lit_sql, rb.0, rb.1),
                );
            }
            let (sa, sb) = (state(&a), state(&b));
            if sa != sb {
                let d = sa.iter().zip(&sb).find(|(x, y)| x != y).map(|(x, y)| format!("{}: with parameters {:?}, with literals {:?}", x.0, x.1, y.1)).unwrap_or_default();
                return out.fail(sig(&format!("state_differs|run{}", k.min(1))), format!("template {:?} params {:?} (literal twin: {})\n  {}", template, params, lit_sql, d));
            }
        }
        out.add_class(format!("route:{:?}", route));
        out.add_class(format!("stmt:{}", stmt_kind));
        for t in &tg {
            out.add_class(format!("tag:{}", t));
        }
        if tg.iter().any(|t| matches!(*t, "text_with_quote" | "text_with_comment_marker" | "text_with_semicolon" | "cached_plan_run" | "negative_after_minus")) {
            out.nontrivial = Some(vcore::hash_of(&format!("{:?}", case)));
        }
        out
    }
}

impl Check for C13 {
    type Case = Case;
    fn run(&self, case: &Case) -> Outcome {
        self.go(case, &self.gates)
    }
    fn run_strict(&self, case: &Case) -> Outcome {
        self.go(case, &Default::default())
    }
}

fn text_param() -> BoxedStrategy<String> {
    prop_oneof![
        3 => prop_oneof![Just("a".to_string()), Just("b".to_string()), Just("".to_string()), Just("it's".to_string()), Just("é".to_string()), Just("x -- y".to_string())],
        3 => prop_oneof![
            Just("'; DROP TABLE keepme; --".to_string()),
            Just("a' OR '1'='1".to_string()),
            Just("/* c */ x".to_string()),
            Just("semi;colon".to_string()),
            Just("back\\slash".to_string()),
            Just("q? $1 ?".to_string()),
            Just("''".to_string()),
            Just("'".to_string()),
            Just("--".to_string()),
            Just("a\nb".to_string()),
        ],
        2 => "[a-c' ;\\\\?$/*-]{0,8}",
    ]
    .boxed()
}

fn param_of(kind: char) -> BoxedStrategy<P> {
    match kind {
        'I' => (100i64..100000).prop_map(P::Int).boxed(), // fresh primary keys
        'i' => prop_oneof![6 => prop_oneof![-5i64..12, Just(7i64), Just(-3i64), Just(i64::MAX), Just(i64::MIN + 1)].prop_map(P::Int), 1 => Just(P::Null)].boxed(),
        't' => prop_oneof![8 => text_param().prop_map(P::Text), 1 => Just(P::Null)].boxed(),
        'f' => prop_oneof![6 => prop_oneof![Just(0.5f64), Just(-2.0), Just(1e20), Just(1e-7), Just(1.5), Just(123456789.125), Just(-0.0), Just(2.25)].prop_map(|f| P::Float(f.to_bits())), 1 => Just(P::Null)].boxed(),
        _ => Just(P::Null).boxed(),
    }
}

pub fn strategy() -> BoxedStrategy<Case> {
    (0..TEMPLATES.len() as u8, prop_oneof![Just(Route::ExecuteWithParams), Just(Route::PreparedExecute), Just(Route::PreparedQuery)], 1usize..3)
        .prop_flat_map(|(t, route, nruns)| {
            let kinds: Vec<char> = TEMPLATES[t as usize].1.chars().collect();
            let one: Vec<BoxedStrategy<P>> = kinds.iter().map(|k| param_of(*k)).collect();
            proptest::collection::vec(one, nruns).prop_map(move |runs| Case { template: t, route, runs })
        })
        .boxed()
}

pub fn main(tier: Tier, replay: Option<String>) -> i32 {
    let gates: std::collections::BTreeSet<String> = vcore::Findings::load_default().closed_gates("C13").into_iter().collect();
    let check = C13 { gates };
    if let Some(p) = replay {
        return vcore::replay_file("C13", &check, &p);
    }
    let ctx = Ctx::new("C13", tier, "exploration");
    ctx.set_rule(
        "17 statement templates (SELECT with =, <>, >, IN, a placeholder directly after '-', LIMIT, ORDER BY, anonymous and positional $n incl. a repeated $1; INSERT; UPDATE; DELETE) x parameter \
         values (ints incl. negative and extremes, floats needing exponents, NULL, text with quotes, comment markers, semicolons, backslashes, placeholder characters, classic injection \
         strings) x route (execute_with_params, prepare+bind+execute run once or twice so the second run takes the cached plan, BoundStatement::query); the twin database executes the \
         harness's literal rendering. Results and table contents (incl. a bystander table) must be equal after every run. Non-trivial = a parameter text contains a quote, comment \
         marker or semicolon, a negative number follows '-', or the cached-plan run happened; distinct by hash of the case.",
    );
    let cases = tier.pick(4000, 150_000);
    vcore::drive(&ctx, &check, strategy, cases, 16);
    ctx.finish()
}
