//! C14 WHERE filtering follows SQL three-valued logic.
//!
//! G: one generated table (0–40 rows, NULLs, duplicates, optional PRIMARY KEY / secondary
//! index) and one generated boolean expression of depth ≤ 5 over comparisons (int / double /
//! text / boolean / NULL), AND, OR, NOT, IN / NOT IN lists (with NULLs), BETWEEN, LIKE,
//! IS [NOT] NULL (also over predicates). O: a Kleene-logic evaluator written here,
//! cross-checked on every case against bundled SQLite on identical data (a case on which the
//! two disagree is dropped as `oracle_disagreement`). Checked: `SELECT … WHERE p` returns
//! exactly the rows for which p is TRUE, and `SELECT id, p` yields p's TRUE/FALSE/NULL.

use std::collections::BTreeSet;

use proptest::prelude::*;
use serde::{Deserialize, Serialize};
use vcore::{Check, Ctx, Outcome, Tier};

use crate::equery::*;

#[derive(Debug, Clone, Serialize, Deserialize)]
pub struct Case {
    pub table: Table,
    pub pred: E,
    /// `SELECT *` instead of `SELECT id` for the filter query
    pub star: bool,
    /// refer to the table through an alias
    pub alias: bool,
}

pub struct C14 {
    pub gates: BTreeSet<String>,
    pub all_tags: bool,
}

/// Trigger tags: constructs (syntactic, or data-dependent `unknown…`) that name a listed
/// finding; a case carrying a closed one is not run, a failing case's signature lists the
/// ones it carries.
pub const TRIGGERS: &[&str] = &["text.toasted_value"];

/// data-dependent facts about the predicate on this table's rows
pub fn data_tags(e: &E, scope: &Scope, rows: &[Row], out: &mut BTreeSet<&'static str>) {
    let unk = |x: &E| rows.iter().any(|r| matches!(eval(x, scope, r), Ok(Val::Null)));
    e.walk(&mut |n| match n {
        E::Not(a) => {
            if unk(a) {
                out.insert("unknown.under_not");
            }
        }
        E::And(a, b) => {
            if unk(a) || unk(b) {
                out.insert("unknown.under_and");
            }
        }
        E::Or(a, b) => {
            if unk(a) || unk(b) {
                out.insert("unknown.under_or");
            }
        }
        E::IsNull(a, _) if a.cls() == Cls::Bool && !matches!(**a, E::BCol { .. }) => {
            if unk(a) {
                out.insert("unknown.under_is_null");
            }
        }
        E::Cmp(_, a, b) => {
            if unk(a) || unk(b) {
                out.insert("unknown.cmp_operand");
            }
        }
        E::CmpB(_, a, _) => {
            if unk(a) {
                out.insert("unknown.cmp_operand");
            }
        }
        E::InList(a, l, neg) => {
            if unk(a) || l.iter().any(|x| unk(x)) {
                out.insert(if *neg { "unknown.not_in_operand" } else { "unknown.in_operand" });
            }
        }
        E::Between(a, b, c, neg) => {
            if unk(a) || unk(b) || unk(c) {
                out.insert(if *neg { "unknown.not_between_operand" } else { "unknown.between_operand" });
            }
        }
        E::Like(a, _, neg) => {
            if unk(a) {
                out.insert(if *neg { "unknown.not_like_operand" } else { "unknown.like_operand" });
            }
        }
        E::BCol { .. } => {
            if unk(n) {
                out.insert("unknown.bool_column");
            }
        }
        _ => {}
    });
    if unk(e) {
        out.insert("unknown.result");
    }
}

/// the property's non-triviality rule: NOT, NOT IN or OR over a sub-expression that is NULL
/// for at least one row
fn nontrivial(e: &E, scope: &Scope, rows: &[Row]) -> bool {
    let unk = |x: &E| rows.iter().any(|r| matches!(eval(x, scope, r), Ok(Val::Null)));
    let mut nt = false;
    e.walk(&mut |n| match n {
        E::Not(a) if unk(a) => nt = true,
        E::Or(a, b) if unk(a) || unk(b) => nt = true,
        E::InList(a, l, true) if unk(a) || l.iter().any(|x| unk(x)) => nt = true,
        _ => {}
    });
    nt
}

impl C14 {
    fn go(&self, case: &Case, gates: &BTreeSet<String>) -> Outcome {
        let mut out = Outcome::ok();
        let schema = Schema { tables: vec![case.table.clone()] };
        let mut q = Select::table(0);
        q.alias = case.alias;
        q.filter = Some(case.pred.clone());
        if !case.star {
            q.items = vec![Item { e: E::NCol { up: 0, sel: 0 }, alias: false }];
        }
        let scope = q.top_scope(&schema);
        let rows = case.table.data();
        let (sql_where, mut tags) = render(&schema, &q, Dialect::Turdb, false);
        let (lite_where, _) = render(&schema, &q, Dialect::Sqlite, false);
        // select-list form: SELECT id, p FROM t
        let mut q2 = Select::table(0);
        q2.alias = case.alias;
        q2.items = vec![Item { e: E::NCol { up: 0, sel: 0 }, alias: false }, Item { e: case.pred.clone(), alias: false }];
        let (sql_list, _) = render(&schema, &q2, Dialect::Turdb, false);
        let (lite_list, _) = render(&schema, &q2, Dialect::Sqlite, false);
        data_tags(&case.pred, &scope, &rows, &mut tags);
        if case.table.pk {
            tags.insert("table.primary_key");
        }
        if case.table.index.is_some() {
            tags.insert("table.secondary_index");
        }
        if case.table.long_text && rows.iter().any(|r| r.iter().any(|v| matches!(v, Val::Text(s) if s.len() > 1000))) {
            let mut refs_text = false;
            case.pred.walk(&mut |n| {
                if matches!(n, E::TCol { .. }) {
                    refs_text = true;
                }
            });
            if refs_text {
                tags.insert("text.toasted_value");
            }
        }
        // gates
        if let Some(g) = tags.iter().find(|t| gates.contains(**t)) {
            out.add_class(format!("gated:{}", g));
            return out;
        }
        let sigtags: Vec<&str> = if self.all_tags { tags.iter().copied().collect() } else { tags.iter().copied().filter(|t| TRIGGERS.contains(t)).collect() };
        let sigtags = tagstr(sigtags);

        // ---- oracle 1: evaluator
        let mut truth: Vec<Val> = Vec::with_capacity(rows.len());
        for r in &rows {
            match eval(&case.pred, &scope, r) {
                Ok(v) => truth.push(v),
                Err(_) => {
                    out.add_class("evaluator_unsupported");
                    return out;
                }
            }
        }
        let exp_where: Vec<Row> = rows.iter().zip(&truth).filter(|(_, t)| **t == Val::Bool(true)).map(|(r, _)| if case.star { r.clone() } else { vec![r[0].clone()] }).collect();
        let exp_list: Vec<Row> = rows.iter().zip(&truth).map(|(r, t)| vec![r[0].clone(), t.clone()]).collect();

        let w = match World::setup("C14", &schema) {
            Ok(w) => w,
            Err(e) => {
                out.add_class("setup_rejected");
                out.add_class(format!("setup_rejected:{}", e.split('`').next().unwrap_or("").trim()));
                return out;
            }
        };
        // ---- oracle 2: SQLite must agree with the evaluator, else the case is dropped
        match (w.sqlite(&lite_where), w.sqlite(&lite_list)) {
            (Ok(a), Ok(b)) => {
                if bag_mismatch(&exp_where, &a).is_some() || bag_mismatch(&exp_list, &b).is_some() {
                    out.add_class("oracle_disagreement");
                    if std::env::var("VERIF_DEV_ORACLE").is_ok() {
                        eprintln!("oracle disagreement: {}\n  eval {}\n  sqlite {}", lite_list, fmt_rows(&exp_list), fmt_rows(&b));
                    }
                    return out;
                }
            }
            (a, b) => {
                out.add_class("oracle_disagreement");
                if std::env::var("VERIF_DEV_ORACLE").is_ok() {
                    eprintln!("sqlite error: {} / {} -> {:?} {:?}", lite_where, lite_list, a.err(), b.err());
                }
                return out;
            }
        }
        out.add_class(format!("depth={}", case.pred.depth().min(6)));
        for t in &tags {
            out.add_class(format!("tag:{}", t));
        }
        out.add_class(match rows.len() {
            0 => "rows=0",
            1..=5 => "rows=1..5",
            _ => "rows>5",
        });
        // ---- TurDB: filter
        match w.turdb(&sql_where) {
            Ok(got) => {
                if let Some((kind, d)) = bag_mismatch(&exp_where, &got) {
                    out.set_fail(format!("C14|where|{}|{}", kind, sigtags), format!("{}\n  {}", sql_where, d));
                    return out;
                }
                out.add_class("where:checked");
            }
            Err(e) => {
                out.add_class(format!("rejected:where:{}", construct_of(&tags)));
                if std::env::var("VERIF_DEV_REJECTS").is_ok() {
                    eprintln!("rejected: {} -> {}", sql_where, e);
                }
            }
        }
        // ---- TurDB: the same expression in the select list
        match w.turdb(&sql_list) {
            Ok(got) => {
                if let Some((kind, d)) = bag_mismatch(&exp_list, &got) {
                    // classify: which truth value was misreported
                    let g = norm_rows(&got);
                    let mut facet = "value";
                    for (r, t) in rows.iter().zip(&truth) {
                        if let Some(gr) = g.iter().find(|x| val_eq(&x[0], &r[0])) {
                            if gr.len() == 2 && !val_eq(&gr[1], &norm(t)) {
                                facet = match t {
                                    Val::Null => "unknown_reported_as_true_or_false",
                                    Val::Bool(true) => "true_misreported",
                                    _ => "false_misreported",
                                };
                                break;
                            }
                        }
                    }
                    let _ = kind;
                    out.set_fail(format!("C14|select_list|{}|{}", facet, sigtags), format!("{}\n  {}", sql_list, d));
                    return out;
                }
                out.add_class("select_list:checked");
            }
            Err(e) => {
                out.add_class(format!("rejected:select_list:{}", construct_of(&tags)));
                if std::env::var("VERIF_DEV_REJECTS").is_ok() {
                    eprintln!("rejected: {} -> {}", sql_list, e);
                }
            }
        }
        if nontrivial(&case.pred, &scope, &rows) {
            out.add_class("nontrivial");
            out.nontrivial = Some(vcore::hash_of(&(sql_where, format!("{:?}", case.table))));
        }
        out
    }
}

impl Check for C14 {
    type Case = Case;
    fn run(&self, case: &Case) -> Outcome {
        self.go(case, &self.gates)
    }
    fn run_strict(&self, case: &Case) -> Outcome {
        self.go(case, &BTreeSet::new())
    }
}

pub fn strategy(gates: &BTreeSet<String>, max_rows: usize) -> BoxedStrategy<Case> {
    let mut cfg = GenCfg::new(5);
    cfg.off = gates.clone();
    let deep = pred_strategy(&cfg);
    let mut cfg2 = cfg.clone();
    cfg2.depth = 2;
    let shallow = pred_strategy(&cfg2);
    let lookup = lookup_pred_strategy(&cfg);
    let pred = prop_oneof![1 => atom_strategy(&cfg), 2 => shallow, 2 => deep, 1 => lookup];
    (table_strategy(max_rows, true), pred, any::<bool>(), prop_oneof![4 => Just(false), 1 => Just(true)]).prop_map(|(table, pred, star, alias)| Case { table, pred, star, alias }).boxed()
}

pub fn main(tier: Tier, replay: Option<String>) -> i32 {
    let findings = vcore::Findings::load_default();
    let gates: BTreeSet<String> = findings.closed_gates("C14").into_iter().collect();
    let check = C14 { gates: gates.clone(), all_tags: std::env::var("VERIF_DEV_ALLTAGS").is_ok() };
    if let Some(p) = replay {
        return vcore::replay_file("C14", &check, &p);
    }
    let ctx = Ctx::new("C14", tier, "exploration");
    ctx.set_rule(
        "one proptest-generated table (id + 1-5 columns INT/BIGINT/DOUBLE/TEXT/BOOLEAN, 0-40 rows from small value pools, 20% NULLs, optional PRIMARY KEY / secondary index) \
         and one generated boolean expression (depth <= 5) over numeric/text/boolean comparisons, + - *, NULL literals, AND, OR, NOT, [NOT] IN lists with NULLs, [NOT] BETWEEN, \
         [NOT] LIKE, IS [NOT] NULL (also over predicates), checked as WHERE filter and as select-list value. Non-trivial = the expression has a NOT, NOT IN or OR over a \
         sub-expression that evaluates to NULL for >= 1 row of the table; distinct by hash of (SQL text, table).",
    );
    ctx.assume("the Kleene evaluator and bundled SQLite agree on every checked case (disagreements are dropped and counted); booleans are compared as truth values (Bool(true) = 1)");
    ctx.assume("no text-vs-number comparison, no division, integer ranges cannot overflow, LIKE without ESCAPE and case-sensitive");
    let cases = dev_cases(tier.pick(3000, 200_000));
    let g = gates.clone();
    vcore::drive(&ctx, &check, move || strategy(&g, 40), cases, 16);
    ctx.finish()
}
