//! C41 Date and time values convert consistently with the calendar.
//!
//! Domain: every calendar date of years 1..=9999 (3 652 059 dates, exhaustive, both tiers)
//! through every converter of the library: the public literal parsers
//! (`parsing::parse_date / parse_time / parse_timestamp`), the private helpers behind hook
//! H2 (`literal::date_to_days_since_epoch`, `constraints::days_from_ymd`,
//! `functions::datetime::{date_to_days, days_to_date, day_of_week, day_of_year,
//! days_in_month}`), and — on generated samples of years / dates / seconds — the SQL paths
//! (`CAST(.. AS DATE|TIME|TIMESTAMP)`, `FROM_DAYS(TO_DAYS(..))`, INSERT of a literal into a
//! DATE/TIME/TIMESTAMP column and SELECT back, column DEFAULT literals). All 86 400 seconds
//! of the day on boundary dates; every out-of-range field combination of every year (literal
//! parsers must return an error, CAST NULL, INSERT an error, a DEFAULT an error or NULL).
//! Rendering: the library's only renderer of stored DATE / TIME / TIMESTAMP values is the CLI
//! table formatter (`cli::table::TableFormatter`, TurDB feature `cli`, vcheck feature
//! `cli_render`): every date, every second of the day and every second of the boundary dates
//! must render to the canonical text and parse back to the same value.
//!
//! Oracle: the proleptic Gregorian calendar written as an *enumeration* (the only calendar
//! knowledge is the leap-year rule and the month lengths; the day number of a date is its
//! position in the enumeration relative to 1970-01-01), cross-checked at start-up against a
//! closed-form days-from-civil formula so that an error in the oracle itself is reported
//! as inconclusive, never as a violation.

use std::cell::RefCell;
use std::sync::atomic::Ordering;
use std::sync::{Arc, OnceLock};

use proptest::prelude::*;
use serde::{Deserialize, Serialize};
use serde_json::json;
use turdb::parsing::{parse_date, parse_time, parse_timestamp};
use turdb::verif_api::calendar as cal;
use turdb::{Database, ExecuteResult, OwnedValue};
use vcore::{Check, Ctx, Failure, Outcome, Tier};

const MICROS_PER_DAY: i64 = 86_400_000_000;

#[derive(Debug, Clone, Serialize, Deserialize)]
pub enum Case {
    /// one valid date through the library entry points and the H2 helpers
    Date { y: i32, m: u32, d: u32 },
    /// one out-of-range field combination (literal parsers must reject it)
    InvalidDate { y: i32, m: u32, d: u32 },
    /// one time of day on one date: `parse_time`, `parse_timestamp`
    Time { y: i32, m: u32, d: u32, sec: u32, micros: u32, frac_digits: u8, t_sep: bool },
    /// one out-of-range time of day
    InvalidTime { h: u32, mi: u32, s: u32 },
    /// a list of valid dates through the SQL paths (one statement batch)
    SqlDates { dates: Vec<(i32, u32, u32)>, defaults: bool },
    /// every day of one year through the SQL paths, plus that year's invalid combinations
    SqlYear { y: i32 },
    /// `count` consecutive seconds of the day from `from_sec` through the SQL paths
    SqlTimes { from_sec: u32, count: u32 },
    /// out-of-range combinations through SQL (CAST gives NULL, INSERT is an error)
    SqlInvalid { dates: Vec<(i32, u32, u32)>, times: Vec<(u32, u32, u32)> },
    /// a stored value rendered by the CLI table formatter (the library's only renderer of
    /// DATE / TIME / TIMESTAMP values): kind 0 = Date(v), 1 = Time(v), 2 = Timestamp(v)
    Render { kind: u8, v: i64 },
}

pub struct C41;

// ---------------------------------------------------------------------------- the oracle

fn is_leap(y: i32) -> bool {
    if y % 400 == 0 {
        true
    } else if y % 100 == 0 {
        false
    } else {
        y % 4 == 0
    }
}

fn dim(y: i32, m: u32) -> u32 {
    const L: [u32; 12] = [31, 28, 31, 30, 31, 30, 31, 31, 30, 31, 30, 31];
    if m == 2 && is_leap(y) {
        29
    } else {
        L[(m - 1) as usize]
    }
}

/// position of Jan 1 of each year in the enumeration of all days starting 0001-01-01
fn year_start() -> &'static Vec<i64> {
    static T: OnceLock<Vec<i64>> = OnceLock::new();
    T.get_or_init(|| {
        let mut v = vec![0i64; 10_002];
        let mut acc = 0i64;
        for y in 1..=10_000i32 {
            v[y as usize] = acc;
            acc += if is_leap(y) { 366 } else { 365 };
        }
        v[10_001] = acc;
        v
    })
}

/// days since 1970-01-01 of a valid date in years 1..=9999
pub fn day_number(y: i32, m: u32, d: u32) -> i64 {
    let ys = year_start();
    let mut n = ys[y as usize];
    for mm in 1..m {
        n += dim(y, mm) as i64;
    }
    n + (d as i64 - 1) - ys[1970]
}

/// closed-form days-from-civil (era based), used only to cross-check the enumeration
fn days_from_civil(y: i32, m: u32, d: u32) -> i64 {
    let y = if m <= 2 { y as i64 - 1 } else { y as i64 };
    let era = if y >= 0 { y } else { y - 399 } / 400;
    let yoe = y - era * 400;
    let mp = (m as i64 + 9) % 12;
    let doy = (153 * mp + 2) / 5 + d as i64 - 1;
    let doe = yoe * 365 + yoe / 4 - yoe / 100 + doy;
    era * 146_097 + doe - 719_468
}

fn date_text(y: i32, m: u32, d: u32) -> String {
    format!("{:04}-{:02}-{:02}", y, m, d)
}

fn time_text(sec: u32, micros: u32, frac_digits: u8) -> String {
    let (h, mi, s) = (sec / 3600, (sec % 3600) / 60, sec % 60);
    if frac_digits == 0 {
        format!("{:02}:{:02}:{:02}", h, mi, s)
    } else {
        let six = format!("{:06}", micros);
        format!("{:02}:{:02}:{:02}.{}", h, mi, s, &six[..frac_digits as usize])
    }
}

/// micros restricted to what `frac_digits` digits can express
fn clamp_micros(micros: u32, frac_digits: u8) -> u32 {
    if frac_digits == 0 {
        0
    } else {
        let unit = 10u32.pow(6 - frac_digits as u32);
        (micros % 1_000_000) / unit * unit
    }
}

fn valid_date(y: i32, m: u32, d: u32) -> bool {
    (1..=9999).contains(&y) && (1..=12).contains(&m) && d >= 1 && d <= dim(y, m)
}

/// the out-of-range field combinations of one year
fn invalid_dates_of_year(y: i32) -> Vec<(i32, u32, u32)> {
    let mut v = vec![(y, 0, 1), (y, 13, 1), (y, 0, 0), (y, 13, 32)];
    for m in 1..=12u32 {
        v.push((y, m, 0));
        v.push((y, m, dim(y, m) + 1));
        v.push((y, m, 32));
    }
    v
}

fn invalid_times() -> Vec<(u32, u32, u32)> {
    let mut v = vec![(24, 0, 0), (23, 60, 0), (23, 59, 60), (24, 60, 60), (25, 0, 0), (99, 99, 99), (0, 0, 60), (0, 60, 0)];
    for h in 24..=30 {
        v.push((h, 30, 30));
    }
    for x in 60..=70 {
        v.push((12, x, 0));
        v.push((12, 0, x));
    }
    v
}

type R = Result<(), (String, String)>;

fn fail(sig: &str, detail: String) -> R {
    Err((sig.to_string(), detail))
}

fn floor_mod(a: i64, b: i64) -> i64 {
    ((a % b) + b) % b
}

// ---------------------------------------------------------------------------- library checks

fn fn_epoch_offset() -> i64 {
    // `date_to_days` counts from its own origin; the property allows a fixed offset
    static O: OnceLock<i64> = OnceLock::new();
    *O.get_or_init(|| cal::date_to_days(1970, 1, 1))
}

pub fn check_date(y: i32, m: u32, d: u32) -> R {
    let n = day_number(y, m, d);
    let text = date_text(y, m, d);
    match parse_date(&text) {
        Ok(OwnedValue::Date(v)) => {
            if v as i64 != n {
                return fail("C41|literal.parse_date|wrong_day_number", format!("parse_date({:?}) = {} expected {}", text, v, n));
            }
        }
        Ok(o) => return fail("C41|literal.parse_date|wrong_type", format!("parse_date({:?}) = {:?}", text, o)),
        Err(e) => return fail("C41|literal.parse_date|valid_rejected", format!("parse_date({:?}) rejected: {}", text, e)),
    }
    let v = cal::literal_date_to_days_since_epoch(y, m, d) as i64;
    if v != n {
        return fail("C41|literal.date_to_days_since_epoch|wrong_day_number", format!("{} -> {} expected {}", text, v, n));
    }
    let v = cal::constraints_days_from_ymd(y, m, d) as i64;
    if v != n {
        return fail("C41|constraints.days_from_ymd|wrong_day_number", format!("{} -> {} expected {}", text, v, n));
    }
    let dd = cal::date_to_days(y as i64, m, d);
    if dd - fn_epoch_offset() != n {
        return fail(
            "C41|datetime.date_to_days|wrong_day_number",
            format!("{} -> {} (minus its value for 1970-01-01, {}) = {} expected {}", text, dd, fn_epoch_offset(), dd - fn_epoch_offset(), n),
        );
    }
    let back = cal::days_to_date(dd);
    if back != (y as i64, m, d) {
        return fail("C41|datetime.days_to_date|not_inverse", format!("days_to_date(date_to_days({})) = {:?}", text, back));
    }
    // what FROM_DAYS / DATE_ADD render from that triple must be the canonical text again
    let rendered = format!("{:04}-{:02}-{:02}", back.0, back.1, back.2);
    if rendered != text {
        return fail("C41|datetime.render|not_canonical", format!("{} rendered as {}", text, rendered));
    }
    let dow = cal::day_of_week(y as i64, m, d) as i64;
    let want = floor_mod(n + 4, 7); // 1970-01-01 was a Thursday; 0 = Sunday
    if dow != want {
        return fail("C41|datetime.day_of_week|wrong_weekday", format!("{} -> {} expected {} (0=Sunday)", text, dow, want));
    }
    let doy = cal::day_of_year(y as i64, m, d) as i64;
    let want = n - day_number(y, 1, 1) + 1;
    if doy != want {
        return fail("C41|datetime.day_of_year|wrong", format!("{} -> {} expected {}", text, doy, want));
    }
    if d == 1 {
        let l = cal::days_in_month(y as i64, m);
        if l != dim(y, m) {
            return fail("C41|datetime.days_in_month|wrong", format!("{:04}-{:02} -> {} expected {}", y, m, l, dim(y, m)));
        }
    }
    Ok(())
}

pub fn check_invalid_date(y: i32, m: u32, d: u32) -> R {
    let text = date_text(y, m, d);
    if let Ok(v) = parse_date(&text) {
        return fail("C41|literal.parse_date|invalid_accepted", format!("parse_date({:?}) = {:?}", text, v));
    }
    for sep in [" ", "T"] {
        let ts = format!("{}{}12:00:00", text, sep);
        if let Ok(v) = parse_timestamp(&ts) {
            return fail("C41|literal.parse_timestamp|invalid_accepted", format!("parse_timestamp({:?}) = {:?}", ts, v));
        }
    }
    Ok(())
}

pub fn check_time(y: i32, m: u32, d: u32, sec: u32, micros: u32, frac_digits: u8, t_sep: bool) -> R {
    let tt = time_text(sec, micros, frac_digits);
    let want_t = sec as i64 * 1_000_000 + micros as i64;
    match parse_time(&tt) {
        Ok(OwnedValue::Time(v)) => {
            if v != want_t {
                return fail("C41|literal.parse_time|wrong_value", format!("parse_time({:?}) = {} expected {}", tt, v, want_t));
            }
        }
        Ok(o) => return fail("C41|literal.parse_time|wrong_type", format!("parse_time({:?}) = {:?}", tt, o)),
        Err(e) => return fail("C41|literal.parse_time|valid_rejected", format!("parse_time({:?}) rejected: {}", tt, e)),
    }
    let ts = format!("{}{}{}", date_text(y, m, d), if t_sep { "T" } else { " " }, tt);
    let want = day_number(y, m, d) * MICROS_PER_DAY + want_t;
    match parse_timestamp(&ts) {
        Ok(OwnedValue::Timestamp(v)) => {
            if v != want {
                return fail("C41|literal.parse_timestamp|wrong_value", format!("parse_timestamp({:?}) = {} expected {}", ts, v, want));
            }
        }
        Ok(o) => return fail("C41|literal.parse_timestamp|wrong_type", format!("parse_timestamp({:?}) = {:?}", ts, o)),
        Err(e) => return fail("C41|literal.parse_timestamp|valid_rejected", format!("parse_timestamp({:?}) rejected: {}", ts, e)),
    }
    Ok(())
}

pub fn check_invalid_time(h: u32, mi: u32, s: u32) -> R {
    let tt = format!("{:02}:{:02}:{:02}", h, mi, s);
    if let Ok(v) = parse_time(&tt) {
        return fail("C41|literal.parse_time|invalid_accepted", format!("parse_time({:?}) = {:?}", tt, v));
    }
    let ts = format!("2024-02-29 {}", tt);
    if let Ok(v) = parse_timestamp(&ts) {
        return fail("C41|literal.parse_timestamp|invalid_accepted", format!("parse_timestamp({:?}) = {:?}", ts, v));
    }
    Ok(())
}

// ---------------------------------------------------------------------------- rendering

/// civil date of a day number (inverse of the enumeration, by binary search on it)
pub fn civil_of(n: i64) -> (i32, u32, u32) {
    let ys = year_start();
    let pos = n + ys[1970];
    let mut y = match ys[1..=10_000].binary_search(&pos) {
        Ok(i) => i as i32 + 1,
        Err(i) => i as i32,
    };
    if y < 1 {
        y = 1;
    }
    let mut rest = pos - ys[y as usize];
    let mut m = 1u32;
    while rest >= dim(y, m) as i64 {
        rest -= dim(y, m) as i64;
        m += 1;
    }
    (y, m, rest as u32 + 1)
}

fn render_value(kind: u8, v: i64) -> OwnedValue {
    match kind {
        0 => OwnedValue::Date(v as i32),
        1 => OwnedValue::Time(v),
        _ => OwnedValue::Timestamp(v),
    }
}

/// what the value must render to: canonical text, fraction only when non-zero
fn canonical_text(kind: u8, v: i64) -> String {
    match kind {
        0 => {
            let (y, m, d) = civil_of(v);
            date_text(y, m, d)
        }
        1 => {
            let micros = (v % 1_000_000) as u32;
            time_text((v / 1_000_000) as u32, micros, if micros == 0 { 0 } else { 6 })
        }
        _ => {
            let day = v.div_euclid(MICROS_PER_DAY);
            let tod = v.rem_euclid(MICROS_PER_DAY);
            let (y, m, d) = civil_of(day);
            let micros = (tod % 1_000_000) as u32;
            format!("{} {}", date_text(y, m, d), time_text((tod / 1_000_000) as u32, micros, if micros == 0 { 0 } else { 6 }))
        }
    }
}

fn render_in_domain(kind: u8, v: i64) -> bool {
    match kind {
        0 => (-719_162..=2_932_896).contains(&v),
        1 => (0..MICROS_PER_DAY).contains(&v),
        2 => (-719_162 * MICROS_PER_DAY..2_932_897 * MICROS_PER_DAY).contains(&v),
        _ => false,
    }
}

#[cfg(feature = "cli_render")]
fn cli_render(values: &[OwnedValue]) -> Result<Vec<String>, (String, String)> {
    use turdb::cli::table::TableFormatter;
    let rows: Vec<turdb::Row> = values.iter().map(|v| turdb::Row::new(vec![v.clone()])).collect();
    let out = TableFormatter::new(vec!["v".to_string()], &rows).render();
    let lines: Vec<&str> = out.lines().collect();
    if lines.len() != values.len() + 4 {
        return Err(("C41|cli.render|table_shape".into(), format!("{} rows rendered as {} lines", values.len(), lines.len())));
    }
    let mut cells = Vec::with_capacity(values.len());
    for l in &lines[3..3 + values.len()] {
        match l.strip_prefix("| ").and_then(|x| x.strip_suffix(" |")) {
            Some(c) => cells.push(c.trim_end().to_string()),
            None => return Err(("C41|cli.render|table_shape".into(), format!("unexpected table line {:?}", l))),
        }
    }
    Ok(cells)
}

/// render -> canonical text, and parse(render) -> the value again
#[cfg(feature = "cli_render")]
pub fn check_render(kind: u8, vals: &[i64]) -> Result<(), (i64, String, String)> {
    let values: Vec<OwnedValue> = vals.iter().map(|v| render_value(kind, *v)).collect();
    let cells = cli_render(&values).map_err(|(s, d)| (vals[0], s, d))?;
    let name = ["date", "time", "timestamp"][kind.min(2) as usize];
    for (i, c) in cells.iter().enumerate() {
        let want = canonical_text(kind, vals[i]);
        if *c != want {
            return Err((vals[i], format!("C41|cli.render_{}|not_canonical", name), format!("{:?} rendered as {:?} expected {:?}", values[i], c, want)));
        }
        let back = match kind {
            0 => parse_date(c),
            1 => parse_time(c),
            _ => parse_timestamp(c),
        };
        match back {
            Ok(b) if b == values[i] => {}
            other => {
                return Err((
                    vals[i],
                    format!("C41|cli.render_{}|parse_not_inverse", name),
                    format!("{:?} rendered as {:?} which parses to {:?}", values[i], c, other.map_err(|e| e.to_string())),
                ))
            }
        }
    }
    Ok(())
}

#[cfg(not(feature = "cli_render"))]
pub fn check_render(_kind: u8, _vals: &[i64]) -> Result<(), (i64, String, String)> {
    Ok(())
}

// ---------------------------------------------------------------------------- SQL checks

struct Sess {
    _dir: vcore::tmp::TempDir,
    db: Database,
    serial: u64,
}

thread_local! {
    /// one scratch database per worker thread; every case uses fresh table names and drops
    /// them, expression queries are stateless. Dropped after any failure.
    static SESS: RefCell<Option<Sess>> = const { RefCell::new(None) };
}

fn with_sess<T>(f: impl FnOnce(&mut Sess) -> Result<T, (String, String)>) -> Result<T, (String, String)> {
    let mut s = match SESS.with(|c| c.borrow_mut().take()) {
        Some(s) => s,
        None => {
            let dir = vcore::tmp::TempDir::new("c41");
            let db = match Database::create(dir.join("db")) {
                Ok(db) => db,
                Err(e) => return Err(("C41|harness|create_database".into(), format!("Database::create failed: {}", e))),
            };
            Sess { _dir: dir, db, serial: 0 }
        }
    };
    let r = f(&mut s);
    if r.is_ok() {
        SESS.with(|c| *c.borrow_mut() = Some(s));
    }
    r
}

const CHUNK: usize = 120;

/// `SELECT e1, e2, ...` in chunks; returns one value per expression
fn select_exprs(db: &Database, facet: &str, exprs: &[String]) -> Result<Vec<OwnedValue>, (String, String)> {
    let mut out = Vec::with_capacity(exprs.len());
    for ch in exprs.chunks(CHUNK) {
        let sql = format!("SELECT {}", ch.join(", "));
        match db.query(&sql) {
            Ok(rows) => {
                if rows.len() != 1 || rows[0].values.len() != ch.len() {
                    return Err((
                        format!("C41|{}|result_shape", facet),
                        format!("{} expressions gave {} rows x {} columns: {}", ch.len(), rows.len(), rows.first().map(|r| r.values.len()).unwrap_or(0), short(&sql)),
                    ));
                }
                out.extend(rows.into_iter().next().unwrap().values);
            }
            Err(e) => return Err((format!("C41|{}|query_error", facet), format!("{} -> {}", short(&sql), e))),
        }
    }
    Ok(out)
}

fn short(s: &str) -> String {
    if s.len() > 300 {
        format!("{}...", &s[..300])
    } else {
        s.to_string()
    }
}

fn exec(db: &Database, facet: &str, sql: &str) -> Result<ExecuteResult, (String, String)> {
    db.execute(sql).map_err(|e| (format!("C41|{}|statement_error", facet), format!("{} -> {}", short(sql), e)))
}

fn sod(n: i64) -> u32 {
    // a second of the day derived from the date; the first and last second of the day often
    let k = vcore::splitmix(n as u64);
    match k % 8 {
        0 => 86_399,
        1 => 0,
        _ => ((k >> 8) % 86_400) as u32,
    }
}

fn sql_dates(s: &mut Sess, dates: &[(i32, u32, u32)], defaults: bool) -> R {
    let db = &s.db;
    let texts: Vec<String> = dates.iter().map(|&(y, m, d)| date_text(y, m, d)).collect();
    let ns: Vec<i64> = dates.iter().map(|&(y, m, d)| day_number(y, m, d)).collect();

    // CAST(text AS DATE): the evaluator's own date parser
    let e: Vec<String> = texts.iter().map(|t| format!("CAST('{}' AS DATE)", t)).collect();
    let got = select_exprs(db, "sql.cast_date", &e)?;
    for (i, g) in got.iter().enumerate() {
        if *g != OwnedValue::Int(ns[i]) {
            return fail("C41|sql.cast_date|wrong_day_number", format!("CAST('{}' AS DATE) = {:?} expected Int({})", texts[i], g, ns[i]));
        }
    }
    // render -> parse through the date functions: FROM_DAYS(TO_DAYS(t)) is t again and casts to n
    let e: Vec<String> = texts.iter().map(|t| format!("FROM_DAYS(TO_DAYS('{}'))", t)).collect();
    let got = select_exprs(db, "sql.from_days_to_days", &e)?;
    for (i, g) in got.iter().enumerate() {
        if *g != OwnedValue::Text(texts[i].clone()) {
            return fail("C41|sql.from_days_to_days|not_identity", format!("FROM_DAYS(TO_DAYS('{}')) = {:?}", texts[i], g));
        }
    }
    let e: Vec<String> = texts.iter().map(|t| format!("CAST(DATE_ADD('{}', 0) AS DATE)", t)).collect();
    let got = select_exprs(db, "sql.render_parse", &e)?;
    for (i, g) in got.iter().enumerate() {
        if *g != OwnedValue::Int(ns[i]) {
            return fail("C41|sql.render_parse|wrong_day_number", format!("CAST(DATE_ADD('{}', 0) AS DATE) = {:?} expected Int({})", texts[i], g, ns[i]));
        }
    }
    // CAST(text AS TIMESTAMP) at a second of the day derived from the date
    let e: Vec<String> = texts.iter().zip(&ns).map(|(t, n)| format!("CAST('{} {}' AS TIMESTAMP)", t, time_text(sod(*n), 0, 0))).collect();
    let got = select_exprs(db, "sql.cast_timestamp", &e)?;
    for (i, g) in got.iter().enumerate() {
        let want = ns[i] * MICROS_PER_DAY + sod(ns[i]) as i64 * 1_000_000;
        let ok = match g {
            OwnedValue::TimestampTz(v, off) => *v == want && *off == 0,
            OwnedValue::Timestamp(v) => *v == want,
            OwnedValue::Int(v) => *v == want,
            _ => false,
        };
        if !ok {
            return fail("C41|sql.cast_timestamp|wrong_value", format!("{} = {:?} expected {} microseconds", e[i], g, want));
        }
    }

    // INSERT literal text into typed columns, SELECT back
    s.serial += 1;
    let table = format!("c41_t{}", s.serial);
    exec(db, "sql.insert_select", &format!("CREATE TABLE {} (id INT, d DATE, ts TIMESTAMP)", table))?;
    for (ci, ch) in texts.chunks(CHUNK).enumerate() {
        let rows: Vec<String> = ch
            .iter()
            .enumerate()
            .map(|(j, t)| {
                let i = ci * CHUNK + j;
                format!("({}, '{}', '{}{}{}')", i, t, t, if i % 2 == 0 { " " } else { "T" }, time_text(sod(ns[i]), 0, 0))
            })
            .collect();
        exec(db, "sql.insert_select", &format!("INSERT INTO {} VALUES {}", table, rows.join(", ")))?;
    }
    let rows = db
        .query(&format!("SELECT * FROM {}", table))
        .map_err(|e| ("C41|sql.insert_select|query_error".to_string(), format!("SELECT from {}: {}", table, e)))?;
    if rows.len() != texts.len() {
        return fail("C41|sql.insert_select|row_count", format!("inserted {} rows, read {}", texts.len(), rows.len()));
    }
    let mut seen = vec![false; texts.len()];
    for r in &rows {
        let i = match r.values.first() {
            Some(OwnedValue::Int(i)) if (*i as usize) < texts.len() => *i as usize,
            o => return fail("C41|sql.insert_select|bad_id", format!("id column = {:?}", o)),
        };
        if std::mem::replace(&mut seen[i], true) {
            return fail("C41|sql.insert_select|duplicate_row", format!("id {} twice", i));
        }
        if r.values.get(1) != Some(&OwnedValue::Date(ns[i] as i32)) {
            return fail("C41|sql.insert_select|wrong_day_number", format!("stored '{}' read {:?} expected Date({})", texts[i], r.values.get(1), ns[i]));
        }
        let want = ns[i] * MICROS_PER_DAY + sod(ns[i]) as i64 * 1_000_000;
        if r.values.get(2) != Some(&OwnedValue::Timestamp(want)) {
            return fail(
                "C41|sql.insert_select|wrong_timestamp",
                format!("stored '{} {}' read {:?} expected Timestamp({})", texts[i], time_text(sod(ns[i]), 0, 0), r.values.get(2), want),
            );
        }
    }
    exec(db, "sql.insert_select", &format!("DROP TABLE {}", table))?;

    // column DEFAULT literals (another private parser)
    if defaults {
        for (i, t) in texts.iter().enumerate() {
            s.serial += 1;
            let table = format!("c41_d{}", s.serial);
            let tt = time_text(sod(ns[i]), 0, 0);
            exec(db, "sql.default", &format!("CREATE TABLE {} (id INT, d DATE DEFAULT '{}', ts TIMESTAMP DEFAULT '{} {}', tm TIME DEFAULT '{}')", table, t, t, tt, tt))?;
            exec(db, "sql.default", &format!("INSERT INTO {} (id) VALUES (1)", table))?;
            // SELECT * on purpose: column-subset projection is a defect of its own (not this property's)
            let rows = db.query(&format!("SELECT * FROM {}", table)).map_err(|e| ("C41|sql.default|query_error".to_string(), format!("{}", e)))?;
            let want_ts = ns[i] * MICROS_PER_DAY + sod(ns[i]) as i64 * 1_000_000;
            let want = vec![OwnedValue::Int(1), OwnedValue::Date(ns[i] as i32), OwnedValue::Timestamp(want_ts), OwnedValue::Time(sod(ns[i]) as i64 * 1_000_000)];
            if rows.len() != 1 || rows[0].values != want {
                return fail(
                    "C41|sql.default|wrong_value",
                    format!("DEFAULT '{}' / '{} {}' / '{}' stored as {:?} expected {:?}", t, t, tt, tt, rows.iter().map(|r| &r.values).collect::<Vec<_>>(), want),
                );
            }
            exec(db, "sql.default", &format!("DROP TABLE {}", table))?;
        }
    }
    Ok(())
}

fn sql_invalid(s: &mut Sess, dates: &[(i32, u32, u32)], times: &[(u32, u32, u32)]) -> R {
    let db = &s.db;
    let mut e: Vec<String> = Vec::new();
    for &(y, m, d) in dates {
        e.push(format!("CAST('{}' AS DATE)", date_text(y, m, d)));
        e.push(format!("CAST('{} 12:00:00' AS TIMESTAMP)", date_text(y, m, d)));
    }
    for &(h, mi, sx) in times {
        e.push(format!("CAST('{:02}:{:02}:{:02}' AS TIME)", h, mi, sx));
        e.push(format!("CAST('2024-02-29 {:02}:{:02}:{:02}' AS TIMESTAMP)", h, mi, sx));
    }
    // the evaluator has no error channel: NULL is its rejection
    for ch in e.chunks(CHUNK) {
        let sql = format!("SELECT {}", ch.join(", "));
        match db.query(&sql) {
            Err(_) => {}
            Ok(rows) => {
                for r in &rows {
                    for (i, v) in r.values.iter().enumerate() {
                        if *v != OwnedValue::Null {
                            return fail("C41|sql.cast|invalid_accepted", format!("{} = {:?} (expected NULL or an error)", ch.get(i).cloned().unwrap_or_default(), v));
                        }
                    }
                }
            }
        }
    }
    if dates.is_empty() && times.is_empty() {
        return Ok(());
    }
    s.serial += 1;
    let table = format!("c41_i{}", s.serial);
    exec(db, "sql.insert_invalid", &format!("CREATE TABLE {} (id INT, d DATE, tm TIME, ts TIMESTAMP)", table))?;
    let mut stmts: Vec<String> = Vec::new();
    for &(y, m, d) in dates {
        let t = date_text(y, m, d);
        stmts.push(format!("INSERT INTO {} VALUES (1, '{}', '12:00:00', '2024-02-29 12:00:00')", table, t));
        stmts.push(format!("INSERT INTO {} VALUES (1, '2024-02-29', '12:00:00', '{} 12:00:00')", table, t));
    }
    for &(h, mi, sx) in times {
        let t = format!("{:02}:{:02}:{:02}", h, mi, sx);
        stmts.push(format!("INSERT INTO {} VALUES (1, '2024-02-29', '{}', '2024-02-29 12:00:00')", table, t));
        stmts.push(format!("INSERT INTO {} VALUES (1, '2024-02-29', '12:00:00', '2024-02-29T{}')", table, t));
    }
    for st in &stmts {
        if db.execute(st).is_ok() {
            let rows = db.query(&format!("SELECT * FROM {}", table)).map(|r| r.into_iter().map(|r| r.values).collect::<Vec<_>>());
            return fail("C41|sql.insert|invalid_accepted", format!("{} succeeded; table now holds {:?}", st, rows.map_err(|e| e.to_string())));
        }
    }
    let rows = db.query(&format!("SELECT * FROM {}", table)).map_err(|e| ("C41|sql.insert_invalid|query_error".to_string(), e.to_string()))?;
    if !rows.is_empty() {
        return fail("C41|sql.insert|rejected_but_stored", format!("{} rows stored by rejected INSERTs", rows.len()));
    }
    exec(db, "sql.insert_invalid", &format!("DROP TABLE {}", table))?;

    // column DEFAULT literals with out-of-range fields: the statement may fail, the INSERT may
    // fail, or the default may come out as NULL (how this parser reports what it cannot
    // parse) - but it must not become some other date or time
    let mut cols: Vec<(String, String)> = Vec::new();
    for &(y, m, d) in dates {
        let t = date_text(y, m, d);
        cols.push(("DATE".into(), t.clone()));
        cols.push(("TIMESTAMP".into(), format!("{} 12:00:00", t)));
    }
    for &(h, mi, sx) in times {
        let t = format!("{:02}:{:02}:{:02}", h, mi, sx);
        cols.push(("TIME".into(), t.clone()));
        cols.push(("TIMESTAMP".into(), format!("2024-02-29 {}", t)));
    }
    for ch in cols.chunks(40) {
        s.serial += 1;
        let table = format!("c41_j{}", s.serial);
        let defs: Vec<String> = ch.iter().enumerate().map(|(i, (ty, lit))| format!("c{} {} DEFAULT '{}'", i, ty, lit)).collect();
        if db.execute(&format!("CREATE TABLE {} (id INT, {})", table, defs.join(", "))).is_err() {
            continue;
        }
        if db.execute(&format!("INSERT INTO {} (id) VALUES (1)", table)).is_ok() {
            let rows = db.query(&format!("SELECT * FROM {}", table)).map_err(|e| ("C41|sql.default_invalid|query_error".to_string(), e.to_string()))?;
            for r in &rows {
                for (i, v) in r.values.iter().enumerate().skip(1) {
                    if *v != OwnedValue::Null {
                        let (ty, lit) = &ch[i - 1];
                        return fail("C41|sql.default|invalid_accepted", format!("{} DEFAULT '{}' stored {:?} (expected an error or NULL)", ty, lit, v));
                    }
                }
            }
        }
        exec(db, "sql.default_invalid", &format!("DROP TABLE {}", table))?;
    }
    Ok(())
}

fn sql_times(s: &mut Sess, from_sec: u32, count: u32) -> R {
    let db = &s.db;
    let secs: Vec<u32> = (from_sec..from_sec.saturating_add(count)).filter(|x| *x < 86_400).collect();
    let e: Vec<String> = secs.iter().map(|x| format!("CAST('{}' AS TIME)", time_text(*x, 0, 0))).collect();
    let got = select_exprs(db, "sql.cast_time", &e)?;
    for (i, g) in got.iter().enumerate() {
        if *g != OwnedValue::Int(secs[i] as i64 * 1_000_000) {
            return fail("C41|sql.cast_time|wrong_value", format!("{} = {:?} expected Int({})", e[i], g, secs[i] as i64 * 1_000_000));
        }
    }
    // render -> parse: SEC_TO_TIME renders HH:MM:SS, the cast parses it back
    let e: Vec<String> = secs.iter().map(|x| format!("CAST(SEC_TO_TIME({}) AS TIME)", x)).collect();
    let got = select_exprs(db, "sql.render_parse_time", &e)?;
    for (i, g) in got.iter().enumerate() {
        if *g != OwnedValue::Int(secs[i] as i64 * 1_000_000) {
            return fail("C41|sql.render_parse_time|wrong_value", format!("{} = {:?} expected Int({})", e[i], g, secs[i] as i64 * 1_000_000));
        }
    }
    let e: Vec<String> = secs.iter().map(|x| format!("SEC_TO_TIME(TIME_TO_SEC('{}'))", time_text(*x, 0, 0))).collect();
    let got = select_exprs(db, "sql.render_parse_time", &e)?;
    for (i, g) in got.iter().enumerate() {
        if *g != OwnedValue::Text(time_text(secs[i], 0, 0)) {
            return fail("C41|sql.render_parse_time|not_identity", format!("{} = {:?}", e[i], g));
        }
    }
    s.serial += 1;
    let table = format!("c41_s{}", s.serial);
    exec(db, "sql.insert_select_time", &format!("CREATE TABLE {} (id INT, tm TIME)", table))?;
    for ch in secs.chunks(CHUNK) {
        let rows: Vec<String> = ch.iter().map(|x| format!("({}, '{}')", x, time_text(*x, (x * 7919) % 1_000_000, if x % 3 == 0 { 6 } else { 0 }))).collect();
        exec(db, "sql.insert_select_time", &format!("INSERT INTO {} VALUES {}", table, rows.join(", ")))?;
    }
    let rows = db.query(&format!("SELECT * FROM {}", table)).map_err(|e| ("C41|sql.insert_select_time|query_error".to_string(), e.to_string()))?;
    if rows.len() != secs.len() {
        return fail("C41|sql.insert_select_time|row_count", format!("inserted {} rows, read {}", secs.len(), rows.len()));
    }
    for r in &rows {
        let x = match r.values.first() {
            Some(OwnedValue::Int(i)) if *i >= 0 && *i < 86_400 => *i as u32,
            o => return fail("C41|sql.insert_select_time|bad_id", format!("id column = {:?}", o)),
        };
        let micros = if x % 3 == 0 { (x * 7919) % 1_000_000 } else { 0 };
        let want = x as i64 * 1_000_000 + micros as i64;
        if r.values.get(1) != Some(&OwnedValue::Time(want)) {
            return fail("C41|sql.insert_select_time|wrong_value", format!("stored '{}' read {:?} expected Time({})", time_text(x, micros, if x % 3 == 0 { 6 } else { 0 }), r.values.get(1), want));
        }
    }
    exec(db, "sql.insert_select_time", &format!("DROP TABLE {}", table))?;
    Ok(())
}

fn year_dates(y: i32) -> Vec<(i32, u32, u32)> {
    let mut v = Vec::with_capacity(366);
    for m in 1..=12u32 {
        for d in 1..=dim(y, m) {
            v.push((y, m, d));
        }
    }
    v
}

/// The dates of a year batch whose DEFAULT path is exercised too (one table each).
fn default_sample(y: i32) -> Vec<(i32, u32, u32)> {
    let k = vcore::splitmix(y as u64);
    let m = (k % 12) as u32 + 1;
    let d = ((k >> 8) % dim(y, m) as u64) as u32 + 1;
    vec![(y, 1, 1), (y, 2, dim(y, 2)), (y, 3, 1), (y, 12, 31), (y, m, d)]
}

fn sql_year(y: i32) -> R {
    let dates = year_dates(y);
    if let Err(e) = with_sess(|s| sql_dates(s, &dates, false)) {
        // narrow the witness to one date when a single date reproduces the failure
        for &(yy, m, d) in &dates {
            if let Err(e1) = with_sess(|s| sql_dates(s, &[(yy, m, d)], false)) {
                return Err((e1.0, format!("[single date {}] {}", date_text(yy, m, d), e1.1)));
            }
        }
        return Err(e);
    }
    with_sess(|s| sql_dates(s, &default_sample(y), true))?;
    with_sess(|s| sql_invalid(s, &invalid_dates_of_year(y), &[]))
}

// ---------------------------------------------------------------------------- Check impl

fn special_date(y: i32, m: u32, d: u32) -> bool {
    d == dim(y, m) || d == 1 || (m == 2 && d == 29) || y % 100 == 0 || y < 1970
}

impl Check for C41 {
    type Case = Case;
    fn run(&self, case: &Case) -> Outcome {
        let mut o = Outcome::ok();
        let r: R = match case {
            Case::Date { y, m, d } => {
                if !valid_date(*y, *m, *d) {
                    return o.class("malformed_case");
                }
                o.add_class("date");
                if special_date(*y, *m, *d) {
                    o.nontrivial = Some(vcore::hash_of(&("date", y, m, d)));
                }
                check_date(*y, *m, *d)
            }
            Case::InvalidDate { y, m, d } => {
                if valid_date(*y, *m, *d) || !(1..=9999).contains(y) || *m > 99 || *d > 99 {
                    return o.class("malformed_case");
                }
                o.add_class("invalid_date");
                o.nontrivial = Some(vcore::hash_of(&("invalid", y, m, d)));
                check_invalid_date(*y, *m, *d)
            }
            Case::Time { y, m, d, sec, micros, frac_digits, t_sep } => {
                if !valid_date(*y, *m, *d) || *sec >= 86_400 || *frac_digits > 6 {
                    return o.class("malformed_case");
                }
                let micros = clamp_micros(*micros, *frac_digits);
                o.add_class(if *frac_digits > 0 { "time_fractional" } else { "time_whole_second" });
                o.add_class(if *y < 1970 { "timestamp_before_epoch" } else { "timestamp_after_epoch" });
                o.nontrivial = Some(vcore::hash_of(&("time", y, m, d, sec, micros, frac_digits, t_sep)));
                check_time(*y, *m, *d, *sec, micros, *frac_digits, *t_sep)
            }
            Case::InvalidTime { h, mi, s } => {
                if (*h < 24 && *mi < 60 && *s < 60) || *h > 99 || *mi > 99 || *s > 99 {
                    return o.class("malformed_case");
                }
                o.add_class("invalid_time");
                o.nontrivial = Some(vcore::hash_of(&("invalid_time", h, mi, s)));
                check_invalid_time(*h, *mi, *s)
            }
            Case::SqlDates { dates, defaults } => {
                if dates.is_empty() || dates.iter().any(|&(y, m, d)| !valid_date(y, m, d)) {
                    return o.class("malformed_case");
                }
                o.add_class(if *defaults { "sql_dates_with_default" } else { "sql_dates" });
                if dates.iter().any(|&(y, m, d)| special_date(y, m, d)) {
                    o.nontrivial = Some(vcore::hash_of(&("sql", dates, defaults)));
                }
                with_sess(|s| sql_dates(s, dates, *defaults))
            }
            Case::SqlYear { y } => {
                if !(1..=9999).contains(y) {
                    return o.class("malformed_case");
                }
                o.add_class("sql_year");
                o.add_class(if is_leap(*y) { "sql_year_leap" } else { "sql_year_common" });
                if *y % 100 == 0 {
                    o.add_class("sql_year_century");
                }
                if *y < 1970 {
                    o.add_class("sql_year_before_epoch");
                }
                o.nontrivial = Some(vcore::hash_of(&("sqlyear", y)));
                sql_year(*y)
            }
            Case::SqlTimes { from_sec, count } => {
                if *from_sec >= 86_400 || *count == 0 || *count > 3600 {
                    return o.class("malformed_case");
                }
                o.add_class("sql_times");
                o.nontrivial = Some(vcore::hash_of(&("sqltimes", from_sec, count)));
                with_sess(|s| sql_times(s, *from_sec, *count))
            }
            Case::SqlInvalid { dates, times } => {
                if dates.iter().any(|&(y, m, d)| valid_date(y, m, d) || !(1..=9999).contains(&y) || m > 99 || d > 99)
                    || times.iter().any(|&(h, mi, s)| (h < 24 && mi < 60 && s < 60) || h > 99 || mi > 99 || s > 99)
                {
                    return o.class("malformed_case");
                }
                o.add_class("sql_invalid");
                o.nontrivial = Some(vcore::hash_of(&("sqlinvalid", dates, times)));
                with_sess(|s| sql_invalid(s, dates, times))
            }
            Case::Render { kind, v } => {
                if !render_in_domain(*kind, *v) {
                    return o.class("malformed_case");
                }
                o.add_class(["render_date", "render_time", "render_timestamp"][*kind as usize]);
                if *kind == 2 {
                    o.add_class(if *v < 0 { "render_timestamp_before_epoch" } else { "render_timestamp_after_epoch" });
                }
                o.nontrivial = Some(vcore::hash_of(&("render", kind, v)));
                check_render(*kind, &[*v]).map_err(|(_, s, d)| (s, d))
            }
        };
        if let Err((sig, detail)) = r {
            o.set_fail(sig, detail);
        }
        o
    }
}

// ---------------------------------------------------------------------------- enumeration

fn record(ctx: &Arc<Ctx>, case: Case, sig: String, detail: String) {
    ctx.record_failure(&Failure::new(sig, detail), &serde_json::to_value(&case).unwrap());
}

/// one enumerated case, panics of the code under test included
fn guarded(ctx: &Arc<Ctx>, case: Case, f: impl FnOnce() -> R) -> bool {
    match vcore::catch(f) {
        Ok(Ok(())) => true,
        Ok(Err((sig, detail))) => {
            record(ctx, case, sig, detail);
            false
        }
        Err(p) => {
            record(ctx, case.clone(), vcore::panic_signature(&p), format!("{:?}: panic at {}:{}: {}", case, p.file, p.line, p.message));
            false
        }
    }
}

/// one batch through the renderer; a failure is recorded as the single failing value
fn render_batch(ctx: &Arc<Ctx>, kind: u8, vals: &[i64]) -> bool {
    match vcore::catch(|| check_render(kind, vals)) {
        Ok(Ok(())) => true,
        Ok(Err((v, sig, detail))) => {
            record(ctx, Case::Render { kind, v }, sig, detail);
            false
        }
        Err(p) => {
            // find the value that panics on its own
            let v = vals.iter().copied().find(|v| vcore::catch(|| check_render(kind, &[*v])).is_err()).unwrap_or(vals[0]);
            record(ctx, Case::Render { kind, v }, vcore::panic_signature(&p), format!("rendering kind {} value {}: panic at {}:{}: {}", kind, v, p.file, p.line, p.message));
            false
        }
    }
}

/// Every second of the day as TIME, and on each boundary date as TIMESTAMP, through the renderer.
fn sweep_render(ctx: &Arc<Ctx>, dates: &[(i32, u32, u32)], threads: usize) {
    if !cfg!(feature = "cli_render") {
        ctx.note("built without cli_render: the CLI renderer facet is skipped");
        return;
    }
    // work items: (kind, base micros, hour)
    let mut items: Vec<(u8, i64, i64)> = Vec::new();
    for h in 0..24 {
        items.push((1, 0, h));
    }
    for &(y, m, d) in dates {
        for h in 0..24 {
            items.push((2, day_number(y, m, d) * MICROS_PER_DAY, h));
        }
    }
    let items = &items;
    std::thread::scope(|sc| {
        for t in 0..threads {
            let ctx = ctx.clone();
            sc.spawn(move || {
                let mut evals = 0u64;
                for (i, &(kind, base, h)) in items.iter().enumerate() {
                    if i % threads != t {
                        continue;
                    }
                    if ctx.stop.load(Ordering::Relaxed) {
                        break;
                    }
                    // whole seconds of the hour, every 7th with a fraction
                    let vals: Vec<i64> = (0..3600i64)
                        .map(|s| {
                            let sec = h * 3600 + s;
                            base + sec * 1_000_000 + if sec % 7 == 3 { (sec * 7919) % 1_000_000 } else { 0 }
                        })
                        .collect();
                    evals += vals.len() as u64;
                    if !render_batch(&ctx, kind, &vals) {
                        break;
                    }
                }
                ctx.count_eval(evals);
                ctx.count_nontrivial_enumerated(evals);
                ctx.class("enum_rendered_times_and_timestamps", evals);
            });
        }
    });
}

/// Every date of years 1..=9999 and every out-of-range combination of every year.
fn sweep_dates(ctx: &Arc<Ctx>, threads: i32) {
    std::thread::scope(|sc| {
        for t in 0..threads {
            let ctx = ctx.clone();
            sc.spawn(move || {
                let (mut evals, mut nt) = (0u64, 0u64);
                let (mut leap_days, mut month_ends, mut century, mut pre_epoch, mut invalid) = (0u64, 0u64, 0u64, 0u64, 0u64);
                let mut rendered = 0u64;
                // years interleaved over the threads: the cost of the literal parser grows with |year - 1970|
                let mut y = 1 + t;
                'years: while y <= 9999 {
                    if ctx.stop.load(Ordering::Relaxed) {
                        break;
                    }
                    for m in 1..=12u32 {
                        for d in 1..=dim(y, m) {
                            evals += 1;
                            if !guarded(&ctx, Case::Date { y, m, d }, || check_date(y, m, d)) {
                                break 'years;
                            }
                            if special_date(y, m, d) {
                                nt += 1;
                            }
                            if m == 2 && d == 29 {
                                leap_days += 1;
                            }
                            if d == dim(y, m) {
                                month_ends += 1;
                            }
                        }
                    }
                    if y % 100 == 0 {
                        century += 1;
                    }
                    if y < 1970 {
                        pre_epoch += 1;
                    }
                    if cfg!(feature = "cli_render") {
                        let first = day_number(y, 1, 1);
                        let ns: Vec<i64> = (first..day_number(y, 12, 31) + 1).collect();
                        evals += ns.len() as u64;
                        rendered += ns.len() as u64;
                        if !render_batch(&ctx, 0, &ns) {
                            break 'years;
                        }
                    }
                    for (iy, im, id) in invalid_dates_of_year(y) {
                        evals += 1;
                        nt += 1;
                        invalid += 1;
                        if !guarded(&ctx, Case::InvalidDate { y: iy, m: im, d: id }, || check_invalid_date(iy, im, id)) {
                            break 'years;
                        }
                    }
                    y += threads;
                }
                ctx.count_eval(evals);
                ctx.count_nontrivial_enumerated(nt);
                ctx.class("enum_leap_days", leap_days);
                ctx.class("enum_month_ends", month_ends);
                ctx.class("enum_century_years", century);
                ctx.class("enum_years_before_epoch", pre_epoch);
                ctx.class("enum_invalid_date_combinations", invalid);
                ctx.class("enum_dates_rendered", rendered);
            });
        }
    });
}

/// All 86 400 seconds of the day on each of `dates` (alternating separators).
fn sweep_times(ctx: &Arc<Ctx>, dates: &[(i32, u32, u32)], threads: u32) {
    std::thread::scope(|sc| {
        for t in 0..threads {
            let ctx = ctx.clone();
            sc.spawn(move || {
                let mut evals = 0u64;
                'outer: for (di, &(y, m, d)) in dates.iter().enumerate() {
                    let mut sec = t;
                    while sec < 86_400 {
                        if (sec & 0xFFF) == t && ctx.stop.load(Ordering::Relaxed) {
                            break 'outer;
                        }
                        let t_sep = (di + sec as usize) % 2 == 1;
                        evals += 1;
                        let case = Case::Time { y, m, d, sec, micros: 0, frac_digits: 0, t_sep };
                        if !guarded(&ctx, case, || check_time(y, m, d, sec, 0, 0, t_sep)) {
                            break 'outer;
                        }
                        sec += threads;
                    }
                }
                ctx.count_eval(evals);
                ctx.count_nontrivial_enumerated(evals);
                ctx.class("enum_seconds_of_day_x_dates", evals);
            });
        }
    });
}

fn boundary_dates() -> Vec<(i32, u32, u32)> {
    vec![
        (1, 1, 1),
        (1, 12, 31),
        (4, 2, 29),
        (100, 2, 28),
        (400, 2, 29),
        (1582, 10, 4),
        (1582, 10, 15),
        (1600, 2, 29),
        (1900, 2, 28),
        (1900, 3, 1),
        (1969, 12, 31),
        (1970, 1, 1),
        (1999, 12, 31),
        (2000, 2, 29),
        (2024, 2, 29),
        (2038, 1, 19),
        (2100, 2, 28),
        (9999, 12, 31),
    ]
}

// ---------------------------------------------------------------------------- generated part

fn arb_date() -> BoxedStrategy<(i32, u32, u32)> {
    prop_oneof![
        3 => (1..=9999i32, 1..=12u32, 0..31u32).prop_map(|(y, m, d)| (y, m, d % dim(y, m) + 1)),
        1 => (1..=9999i32, 1..=12u32).prop_map(|(y, m)| (y, m, dim(y, m))),
        1 => (0..=2498i32).prop_map(|k| (k * 4 + 4, 2, 29)).prop_filter("leap", |&(y, _, _)| is_leap(y)),
        1 => (1..=99i32, 1..=12u32, 0..31u32).prop_map(|(c, m, d)| (c * 100, m, d % dim(c * 100, m) + 1)),
        1 => proptest::sample::select(boundary_dates()),
    ]
    .boxed()
}

fn arb_invalid_date() -> BoxedStrategy<(i32, u32, u32)> {
    (1..=9999i32, 0..40u16).prop_map(|(y, k)| {
        let v = invalid_dates_of_year(y);
        v[k as usize % v.len()]
    })
    .boxed()
}

pub fn strategy(tier: Tier) -> BoxedStrategy<Case> {
    let year_weight = tier.pick(10u32, 30u32);
    prop_oneof![
        year_weight => prop_oneof![
            4 => (1..=9999i32).prop_map(|y| Case::SqlYear { y }),
            1 => (1..=99i32).prop_map(|c| Case::SqlYear { y: c * 100 }),
            1 => proptest::sample::select(vec![1i32, 4, 1582, 1600, 1900, 1969, 1970, 2000, 2024, 2038, 2100, 9999]).prop_map(|y| Case::SqlYear { y }),
        ],
        6 => (proptest::collection::vec(arb_date(), 1..12), any::<bool>()).prop_map(|(dates, defaults)| Case::SqlDates { dates, defaults }),
        4 => (0..86_400u32, 1..=600u32).prop_map(|(from_sec, count)| Case::SqlTimes { from_sec, count }),
        2 => (proptest::collection::vec(arb_invalid_date(), 0..6), proptest::sample::subsequence(invalid_times(), 0..6))
            .prop_map(|(dates, times)| Case::SqlInvalid { dates, times }),
        10 => prop_oneof![
            (-719_162i64..=2_932_896).prop_map(|v| Case::Render { kind: 0, v }),
            (0..MICROS_PER_DAY).prop_map(|v| Case::Render { kind: 1, v }),
            (arb_date(), 0..MICROS_PER_DAY, any::<bool>()).prop_map(|((y, m, d), tod, whole)| Case::Render {
                kind: 2,
                v: day_number(y, m, d) * MICROS_PER_DAY + if whole { tod / 1_000_000 * 1_000_000 } else { tod }
            }),
        ],
        20 => (arb_date(), 0..86_400u32, 0..1_000_000u32, 0..=6u8, any::<bool>()).prop_map(|((y, m, d), sec, micros, frac_digits, t_sep)| Case::Time {
            y,
            m,
            d,
            sec,
            micros: clamp_micros(micros, frac_digits),
            frac_digits,
            t_sep
        }),
    ]
    .boxed()
}

pub fn main(tier: Tier, replay: Option<String>) -> i32 {
    if let Some(p) = replay {
        return vcore::replay_file("C41", &C41, &p);
    }
    let ctx = Ctx::new("C41", tier, "exploration");
    ctx.set_rule(
        "enumeration (both tiers): every date of years 1..9999 through parse_date and the five private helpers (H2), every out-of-range \
         month/day combination of every year, all 86 400 seconds on 18 boundary dates, every out-of-range time, every date / second of the day / second of the boundary dates \
         rendered by the CLI table formatter and parsed back; generated (seeded): whole years, \
         date lists, second ranges and invalid combinations through SQL (CAST, FROM_DAYS/TO_DAYS/DATE_ADD, INSERT+SELECT, DEFAULT), and \
         fractional-second times on generated dates. Non-trivial = a month start/end, leap day, century-year or pre-1970 date, any time or \
         invalid case; enumerated cases are distinct by construction, generated ones by hash.",
    );
    ctx.assume("years outside 1..9999, malformed syntax (signs, blanks, more than 6 fractional digits) are outside the property's domain and not generated");
    ctx.assume("CAST has no error channel in the expression evaluator: NULL counts as rejection there");
    ctx.assume("date_to_days / TO_DAYS count from their own origin; only differences to their value for 1970-01-01 are compared");

    // the oracle checks itself first: enumeration vs closed form on every date
    let mut k = -719_162i64;
    for y in 1..=9999i32 {
        for m in 1..=12u32 {
            for d in 1..=dim(y, m) {
                if day_number(y, m, d) != k || days_from_civil(y, m, d) != k {
                    ctx.inconclusive(format!("oracle self-check failed at {}: enumeration {} closed form {} counter {}", date_text(y, m, d), day_number(y, m, d), days_from_civil(y, m, d), k));
                    return ctx.finish();
                }
                k += 1;
            }
        }
    }
    if k != 2_932_897 {
        ctx.inconclusive(format!("oracle self-check: {} days enumerated", k + 719_162));
        return ctx.finish();
    }

    vcore::replay_witnesses(&ctx, &C41);

    sweep_dates(&ctx, 16);
    ctx.class("enum_dates", 3_652_059);
    ctx.set_exhaustive(true);
    if !ctx.has_violation() {
        sweep_times(&ctx, &boundary_dates(), 16);
        if !ctx.has_violation() {
            sweep_render(&ctx, &boundary_dates(), 16);
        }
        let mut n = 0u64;
        for (h, mi, s) in invalid_times() {
            n += 1;
            if !guarded(&ctx, Case::InvalidTime { h, mi, s }, || check_invalid_time(h, mi, s)) {
                break;
            }
        }
        // every hour 24..99 and every minute / second 60..99 once
        for x in 24..=99u32 {
            n += 1;
            if !guarded(&ctx, Case::InvalidTime { h: x, mi: 0, s: 0 }, || check_invalid_time(x, 0, 0)) {
                break;
            }
        }
        for x in 60..=99u32 {
            n += 2;
            if !guarded(&ctx, Case::InvalidTime { h: 0, mi: x, s: 0 }, || check_invalid_time(0, x, 0))
                || !guarded(&ctx, Case::InvalidTime { h: 0, mi: 0, s: x }, || check_invalid_time(0, 0, x))
            {
                break;
            }
        }
        ctx.count_eval(n);
        ctx.count_nontrivial_enumerated(n);
        ctx.class("enum_invalid_times", n);
    }
    if !ctx.has_violation() && tier == Tier::Thorough {
        // every year through the SQL paths (the quick tier samples years by generation)
        let threads = 16;
        std::thread::scope(|sc| {
            for t in 0..threads {
                let ctx = ctx.clone();
                sc.spawn(move || {
                    let mut n = 0u64;
                    let mut y = 1 + t;
                    while y <= 9999 && !ctx.stop.load(Ordering::Relaxed) {
                        n += 1;
                        if !guarded(&ctx, Case::SqlYear { y }, || sql_year(y)) {
                            break;
                        }
                        y += threads;
                    }
                    ctx.count_eval(n);
                    ctx.count_nontrivial_enumerated(n);
                    ctx.class("enum_sql_years", n);
                });
            }
        });
    }
    if !ctx.has_violation() {
        let cases = tier.pick(1_600, 40_000);
        vcore::drive(&ctx, &C41, || strategy(tier), cases, 16);
    }
    ctx.sample(json!({"Date": {"y": 2024, "m": 2, "d": 29}, "expected_day_number": 19782}));
    ctx.sample(json!({"InvalidDate": {"y": 1900, "m": 2, "d": 29}, "expected": "rejected"}));
    ctx.finish()
}
