//! C05 DML results match a relational reference model.
//!
//! G: E-hist histories (DML + TRUNCATE) over generated schemas; values from small pools so
//! re-deletes, updates of deleted keys and key collisions are common; a wide-key profile
//! grows tables past one leaf. O: refdb — affected-row counts, RETURNING rows, `SELECT *`
//! as a multiset, COUNT(*), and index probes after every statement.

use std::collections::BTreeSet;

use proptest::prelude::*;
use vcore::{Check, Ctx, Outcome, Tier};

use crate::hist::*;
use crate::histrun::*;

pub struct C05 {
    pub gates: BTreeSet<String>,
}

pub fn profile(big: bool) -> Profile {
    Profile { max_ops: if big { 60 } else { 25 }, big_keys: big, max_insert_rows: if big { 12 } else { 4 }, truncate: 1, prefill: big, ..Profile::default() }
}

#[derive(Debug, Clone, serde::Serialize, serde::Deserialize)]
pub struct Case {
    pub big: bool,
    pub h: History,
}

impl Check for C05 {
    type Case = Case;
    fn run_strict(&self, case: &Case) -> Outcome {
        C05 { gates: BTreeSet::new() }.run(case)
    }
    fn run(&self, case: &Case) -> Outcome {
        let cfg = RunCfg {
            prop: "C05",
            oracles: Oracles { model: true, ..Default::default() },
            probes: true,
            closed_gates: self.gates.clone(),
            setup: vec![],
            big: case.big,
        };
        let (mut out, info) = run_history(&cfg, &case.h);
        for g in &info.gated {
            out.add_class(format!("gated:{}", g));
        }
        if info.delete_then_touch {
            out.add_class("delete_then_touch_same_table");
        }
        if info.max_rows >= 100 {
            out.add_class("rows>=100");
        }
        for t in &info.tags_seen {
            out.add_class(format!("tag:{}", t));
        }
        if info.delete_then_touch || info.max_rows >= 300 {
            out.nontrivial = Some(vcore::hash_of(&format!("{:?}", case.h.ops)));
        }
        out
    }
}

pub fn strategy() -> BoxedStrategy<Case> {
    prop_oneof![
        4 => history_strategy(&profile(false)).prop_map(|h| Case { big: false, h }),
        1 => history_strategy(&profile(true)).prop_map(|h| Case { big: true, h }),
    ]
    .boxed()
}

pub fn main(tier: Tier, replay: Option<String>) -> i32 {
    let findings = vcore::Findings::load_default();
    let gates: BTreeSet<String> = findings.closed_gates("C05").into_iter().collect();
    let check = C05 { gates };
    if let Some(p) = replay {
        return vcore::replay_file("C05", &check, &p);
    }
    let ctx = Ctx::new("C05", tier, "exploration");
    ctx.set_rule(
        "proptest-generated schemas (1-2 tables; INT/BIGINT/TEXT/DOUBLE/BOOLEAN columns; optional INT or TEXT primary key, UNIQUE, NOT NULL, DEFAULT, \
         secondary and composite indexes) and histories of INSERT (single/multi-row, column lists, RETURNING), UPDATE (literal and col+k SET, AND/OR/comparison/IS NULL \
         predicates), DELETE and TRUNCATE with values from small pools (plus values above the TOAST threshold, plus a wide-key profile that fills several leaves). \
         Non-trivial = a DELETE that removed rows is followed by another statement touching rows of a table, or a table reached >= 300 rows; distinct by hash of the op list.",
    );
    ctx.assume("statements whose verdict differs between end-of-statement and row-at-a-time constraint checking are not generated; NULL primary keys are not generated");
    let cases = tier.pick(3000, 30_000);
    vcore::drive(&ctx, &check, strategy, cases, 16);
    ctx.finish()
}
