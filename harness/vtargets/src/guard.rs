//! Panic capture with the signatures of C22 / C23 and the in-target allow-list.

use std::sync::OnceLock;

use vcore::{Findings, PanicInfo};

/// Message class: digits removed (vcore does that), input-dependent tails cut.
pub fn message_class(sig_msg: &str) -> String {
    let mut m = sig_msg.to_string();
    if let Some(i) = m.find(" value: ") {
        m.truncate(i + " value".len());
    }
    if let Some(i) = m.find("; ") {
        m.truncate(i);
    }
    if let Some(i) = m.find(": \"") {
        m.truncate(i);
    }
    if m.len() > 80 {
        let mut cut = 80;
        while !m.is_char_boundary(cut) {
            cut -= 1;
        }
        m.truncate(cut);
    }
    m.chars().map(|c| if c.is_whitespace() { '_' } else { c }).collect()
}

fn parts(p: &PanicInfo) -> (String, String, String) {
    // vcore: "panic|<file>|<fn>|<message without digits>"; finding the enclosing fn reads the
    // source file, so the result is cached per panic site (fuzz targets see the same sites
    // thousands of times per second)
    static CACHE: OnceLock<std::sync::Mutex<std::collections::HashMap<(String, u32), (String, String)>>> = OnceLock::new();
    let cache = CACHE.get_or_init(Default::default);
    if let Some((file, func)) = cache.lock().unwrap().get(&(p.file.clone(), p.line)).cloned() {
        // same normalisation of the message as vcore::panic_signature
        let tmp = PanicInfo { file: String::new(), line: 0, message: p.message.clone() };
        let s = vcore::panic_signature(&tmp);
        let msg = message_class(s.splitn(4, '|').nth(3).unwrap_or(""));
        return (file, func, msg);
    }
    let s = vcore::panic_signature(p);
    let mut it = s.splitn(4, '|');
    let _ = it.next();
    let file = it.next().unwrap_or("?").to_string();
    let func = it.next().unwrap_or("?").to_string();
    let msg = message_class(it.next().unwrap_or(""));
    cache.lock().unwrap().insert((p.file.clone(), p.line), (file.clone(), func.clone()));
    (file, func, msg)
}

/// `C23|<decoder>|panic|<enclosing fn>|<message class>`. The decoder is the one whose code
/// panicked (the stem of the source file: records/jsonb.rs -> `jsonb`, records/view.rs ->
/// `record`), so the same missing check has one signature whether it was reached through
/// the JSONB target, a JSONB column of the record target or a table scan of a corrupted
/// file. Panics outside TurDB's sources (allocator, std) are named after the target.
pub fn sig_c23(target: &str, p: &PanicInfo) -> String {
    let (file, func, msg) = parts(p);
    let decoder = if file.starts_with("src/") {
        // src/records/jsonb.rs -> jsonb, src/records/view.rs -> record, src/hnsw/storage.rs -> hnsw_storage
        let path = file.trim_start_matches("src/").trim_end_matches(".rs").trim_end_matches("/mod").replace('/', "_");
        let path = path.trim_start_matches("records_").to_string();
        if path == "view" {
            "record".to_string()
        } else {
            path
        }
    } else {
        target.to_string()
    };
    format!("C23|{}|panic|{}|{}", decoder, func, msg)
}

/// Paths outside TurDB's sources without the machine-specific parts: the registry directory
/// hash and the rustc commit hash.
pub fn norm_file(file: &str) -> String {
    if file.starts_with("src/") {
        return file.to_string();
    }
    if let Some(i) = file.find("/library/") {
        if file.starts_with("/rustc/") {
            return format!("std:{}", &file[i + "/library/".len()..]);
        }
    }
    if let Some(i) = file.find("registry/src/") {
        let rest = &file[i + "registry/src/".len()..];
        if let Some(j) = rest.find('/') {
            return format!("crate:{}", &rest[j + 1..]);
        }
    }
    file.to_string()
}

/// `C22|panic|<file>|<fn>|<message class>`
pub fn sig_c22(p: &PanicInfo) -> String {
    let (file, func, msg) = parts(p);
    let file = norm_file(&file);
    format!("C22|panic|{}|{}|{}", file, func, msg)
}

pub fn detail(p: &PanicInfo) -> String {
    format!("panic at {}:{}: {}", vcore::short_file(&p.file), p.line, p.message.chars().take(300).collect::<String>())
}

thread_local! {
    static COLLECTED: std::cell::RefCell<Vec<PanicInfo>> = const { std::cell::RefCell::new(Vec::new()) };
}

/// Run one independent step of a target. A panic is recorded (at most 16 per case) and the
/// target goes on with its next step, so a known defect in one accessor does not hide an
/// unknown one in the next. Only used where the steps share no mutable state.
pub fn step<R>(f: impl FnOnce() -> R) -> Option<R> {
    match vcore::catch(f) {
        Ok(v) => Some(v),
        Err(p) => {
            COLLECTED.with(|c| {
                let mut c = c.borrow_mut();
                if c.len() < 16 {
                    c.push(p);
                }
            });
            None
        }
    }
}

pub fn take_collected() -> Vec<PanicInfo> {
    COLLECTED.with(|c| std::mem::take(&mut *c.borrow_mut()))
}

/// Run a whole target: every panic it collected through `step` plus the one that escaped.
pub fn run_collect<R>(f: impl FnOnce() -> R) -> (Option<R>, Vec<PanicInfo>) {
    let _ = take_collected();
    let r = vcore::catch(f);
    let mut ps = take_collected();
    match r {
        Ok(v) => (Some(v), ps),
        Err(p) => {
            ps.push(p);
            (None, ps)
        }
    }
}

static KNOWN: OnceLock<Findings> = OnceLock::new();

/// Is `sig` the signature of a listed open finding of `prop`? (KNOWN_FINDINGS.txt under
/// VERIF_ROOT.) Used by the fuzz targets so that a campaign does not stop at a crash that
/// is already recorded; the vcheck driver does the same through `Ctx::is_known`.
pub fn is_known(prop: &str, sig: &str) -> bool {
    if std::env::var("VERIF_FUZZ_STRICT").map(|v| v == "1").unwrap_or(false) {
        return false;
    }
    let f = KNOWN.get_or_init(Findings::load_default);
    let sig: String = sig.chars().map(|c| if c.is_whitespace() { '_' } else { c }).collect();
    f.match_sig(prop, &sig).is_some()
}

/// Body of a fuzz target: run `f`; a panic or violation with an unknown signature aborts
/// the process (libFuzzer saves the input), known ones are swallowed.
pub fn fuzz_guard(prop: &str, sig_of: impl Fn(&PanicInfo) -> String, f: impl FnOnce() -> Option<(String, String)>) {
    let (r, panics) = run_collect(f);
    if let Some(Some((sig, detail))) = r {
        if !is_known(prop, &sig) {
            eprintln!("VERIF-FUZZ violation sig={} :: {}", sig, detail);
            std::process::abort();
        }
    }
    for p in panics {
        let sig = sig_of(&p);
        if !is_known(prop, &sig) {
            eprintln!("VERIF-FUZZ panic sig={} :: {}", sig, detail(&p));
            std::process::abort();
        }
    }
}
