//! C23 decoder targets. `run(target, input)` feeds `input` (in the target's fuzz input
//! format, documented at each function) to one decoder of stored bytes and exercises every
//! read accessor. A panic propagates to the caller (vcheck child / libFuzzer); the return
//! value only carries classification.

use std::path::PathBuf;
use std::sync::atomic::{AtomicU64, Ordering};

use smallvec::SmallVec;
use turdb::btree::{BTree, InteriorNode, LeafNode};
use turdb::encoding::key::decode_key;
use turdb::encoding::varint::decode_varint;
use turdb::hnsw::storage::{HnswFileHeader, HnswPage, HnswPageHeader};
use turdb::records::types::{ColumnDef as RCol, DataType};
use turdb::records::{ArrayView, CompositeView, JsonbValue, JsonbView, RecordView, Schema};
use turdb::schema::persistence::CatalogPersistence;
use turdb::schema::Catalog;
use turdb::sql::row_serde::RowSerde;
use turdb::storage::toast::ToastPointer;
use turdb::storage::{IndexFileHeader, MetaFileHeader, MmapStorage, PageHeader, Storage, TableFileHeader, Wal, WalFrameHeader, WalSegment, PAGE_SIZE, WAL_FRAME_HEADER_SIZE};
use turdb::types::OwnedValue;

use crate::guard::step;
use crate::Report;

pub const TARGETS: &[&str] = &[
    "record", "key", "varint", "jsonb", "array", "composite", "catalog", "catalog_file", "wal", "hdr_table", "hdr_index", "hdr_meta", "hdr_hnsw",
    "hnsw_page", "leaf", "interior", "btree_walk", "toast_ptr", "row_serde", "page_header",
];

pub fn run(target: &str, input: &[u8]) -> Report {
    let mut r = Report::default();
    match target {
        "record" => record(input, &mut r),
        "key" => key(input, &mut r),
        "varint" => varint(input, &mut r),
        "jsonb" => jsonb(input, &mut r),
        "array" => array(input, &mut r),
        "composite" => composite(input, &mut r),
        "catalog" => catalog(input, &mut r),
        "catalog_file" => catalog_file(input, &mut r),
        "wal" => wal(input, &mut r),
        "hdr_table" => hdr_table(input, &mut r),
        "hdr_index" => hdr_index(input, &mut r),
        "hdr_meta" => hdr_meta(input, &mut r),
        "hdr_hnsw" => hdr_hnsw(input, &mut r),
        "hnsw_page" => hnsw_page(input, &mut r),
        "leaf" => leaf(input, &mut r),
        "interior" => interior(input, &mut r),
        "btree_walk" => btree_walk(input, &mut r),
        "toast_ptr" => toast_ptr(input, &mut r),
        "row_serde" => row_serde(input, &mut r),
        "page_header" => page_header(input, &mut r),
        other => r.class(format!("unknown_target_{}", other)),
    }
    r
}

// --------------------------------------------------------------------------------------
// scratch files (WAL segments, catalog files, page files)
// --------------------------------------------------------------------------------------

static SCRATCH_N: AtomicU64 = AtomicU64::new(0);

pub struct Scratch(pub PathBuf);

impl Scratch {
    pub fn new(tag: &str) -> Scratch {
        let n = SCRATCH_N.fetch_add(1, Ordering::SeqCst);
        let p = vcore::tmp::base().join(format!("vt-{}-{}-{}", tag, std::process::id(), n));
        let _ = std::fs::remove_dir_all(&p);
        std::fs::create_dir_all(&p).expect("scratch dir");
        Scratch(p)
    }
}

impl Drop for Scratch {
    fn drop(&mut self) {
        let _ = std::fs::remove_dir_all(&self.0);
    }
}

// --------------------------------------------------------------------------------------
// record: [ncols-1 : u8 (mod 24)] [type code : u8 (mod 32)] * ncols  [record bytes ...]
// --------------------------------------------------------------------------------------

pub const TYPE_TABLE: [DataType; 32] = [
    DataType::Bool,
    DataType::Int2,
    DataType::Int4,
    DataType::Int8,
    DataType::Float4,
    DataType::Float8,
    DataType::Date,
    DataType::Time,
    DataType::Timestamp,
    DataType::TimestampTz,
    DataType::Uuid,
    DataType::MacAddr,
    DataType::Inet4,
    DataType::Inet6,
    DataType::Text,
    DataType::Blob,
    DataType::Vector,
    DataType::Jsonb,
    DataType::Varchar,
    DataType::Char,
    DataType::Decimal,
    DataType::Interval,
    DataType::Int4Range,
    DataType::Int8Range,
    DataType::DateRange,
    DataType::TimestampRange,
    DataType::Enum,
    DataType::Point,
    DataType::Box,
    DataType::Circle,
    DataType::Composite,
    DataType::Array,
];

pub fn type_code(dt: DataType) -> u8 {
    TYPE_TABLE.iter().position(|t| *t == dt).unwrap_or(0) as u8
}

pub fn record_split(input: &[u8]) -> Option<(Vec<DataType>, &[u8])> {
    let n = (*input.first()? as usize % 24) + 1;
    if input.len() < 1 + n {
        return None;
    }
    let types: Vec<DataType> = input[1..1 + n].iter().map(|b| TYPE_TABLE[(*b % 32) as usize]).collect();
    Some((types, &input[1 + n..]))
}

fn record(input: &[u8], r: &mut Report) {
    let Some((types, data)) = record_split(input) else {
        r.class("short_input");
        return;
    };
    let rcols: Vec<RCol> = types.iter().enumerate().map(|(i, t)| RCol::new(format!("c{}", i), *t)).collect();
    let schema = Schema::new(rcols);
    let tcols: Vec<turdb::schema::ColumnDef> = types.iter().enumerate().map(|(i, t)| turdb::schema::ColumnDef::new(format!("c{}", i), *t)).collect();
    let view = match RecordView::new(data, &schema) {
        Ok(v) => v,
        Err(_) => {
            r.class("rejected_by_new");
            return;
        }
    };
    r.deep = true;
    // what the executor does with a stored row
    let row = step(|| OwnedValue::extract_row_from_record(&view, &tcols).is_ok());
    r.accepted = row == Some(true);
    r.class(match row {
        Some(true) => "extract_ok",
        Some(false) => "extract_err",
        None => "extract_panic",
    });
    // and every typed accessor on its own (each column, the _opt form real callers use)
    step(|| (view.header_len(), view.record_column_count()));
    for (i, t) in types.iter().enumerate() {
        step(|| record_column(&view, i, *t));
    }
}

fn record_column(view: &RecordView<'_>, i: usize, t: DataType) {
    {
        let _ = view.is_null_or_missing(i);
        match t {
            DataType::Bool => drop(view.get_bool_opt(i)),
            DataType::Int2 => drop(view.get_int2_opt(i)),
            DataType::Int4 => drop(view.get_int4_opt(i)),
            DataType::Int8 => drop(view.get_int8_opt(i)),
            DataType::Float4 => drop(view.get_float4_opt(i)),
            DataType::Float8 => drop(view.get_float8_opt(i)),
            DataType::Date => drop(view.get_date_opt(i)),
            DataType::Time => drop(view.get_time_opt(i)),
            DataType::Timestamp => drop(view.get_timestamp_opt(i)),
            DataType::TimestampTz => drop(view.get_timestamptz_opt(i)),
            DataType::Uuid => drop(view.get_uuid_opt(i)),
            DataType::MacAddr => drop(view.get_macaddr_opt(i)),
            DataType::Inet4 => drop(view.get_inet4_opt(i)),
            DataType::Inet6 => drop(view.get_inet6_opt(i)),
            DataType::Text | DataType::Varchar | DataType::Char => drop(view.get_text_opt(i)),
            DataType::Blob => drop(view.get_blob_opt(i)),
            DataType::Vector => drop(view.get_vector_opt(i)),
            DataType::Jsonb => {
                if let Ok(Some(j)) = view.get_jsonb_opt(i) {
                    let _ = j.to_json_string();
                }
            }
            DataType::Decimal => {
                if let Ok(Some(d)) = view.get_decimal_opt(i) {
                    let _ = (d.is_negative(), d.scale(), d.digits());
                }
            }
            DataType::Interval => drop(view.get_interval_opt(i)),
            DataType::Int4Range => drop(view.get_int4_range_opt(i)),
            DataType::Int8Range => drop(view.get_int8_range_opt(i)),
            DataType::DateRange => drop(view.get_date_range_opt(i)),
            DataType::TimestampRange => drop(view.get_timestamp_range_opt(i)),
            DataType::Enum => drop(view.get_enum_opt(i)),
            DataType::Point => drop(view.get_point_opt(i)),
            DataType::Box => drop(view.get_box_opt(i)),
            DataType::Circle => drop(view.get_circle_opt(i)),
            DataType::Composite => {
                if let Ok(Some(c)) = view.get_composite_opt(i, 3) {
                    composite_walk(&c);
                }
            }
            DataType::Array => {
                if let Ok(Some(a)) = view.get_array_opt(i) {
                    array_walk(&a, &mut Report::default());
                }
            }
        }
    }
}

// --------------------------------------------------------------------------------------
// key: the bytes of an index key (a concatenation of encoded values)
// --------------------------------------------------------------------------------------

fn key(input: &[u8], r: &mut Report) {
    let mut off = 0usize;
    let mut n = 0;
    while off < input.len() && n < 64 {
        match decode_key(&input[off..]) {
            Ok((_, used)) => {
                if used == 0 {
                    r.violation = Some(("C23|key|no_progress|decode_key".into(), format!("decode_key consumed 0 bytes at offset {}", off)));
                    return;
                }
                if used > input.len() - off {
                    r.violation = Some(("C23|key|overrun|decode_key".into(), format!("decode_key reports {} bytes consumed of {} available", used, input.len() - off)));
                    return;
                }
                off += used;
                n += 1;
                r.deep = true;
            }
            Err(_) => {
                r.class("key_err");
                r.accepted = false;
                return;
            }
        }
    }
    r.accepted = n > 0;
    r.class(if n > 1 { "key_multi" } else { "key_single" });
}

fn varint(input: &[u8], r: &mut Report) {
    match decode_varint(input) {
        Ok((_, used)) => {
            r.accepted = true;
            r.deep = true;
            if used == 0 || used > input.len() {
                r.violation = Some(("C23|varint|overrun|decode_varint".into(), format!("decode_varint consumed {} of {} bytes", used, input.len())));
            }
        }
        Err(_) => r.class("varint_err"),
    }
}

// --------------------------------------------------------------------------------------
// jsonb: [key selector : u8] [document bytes ...]
// --------------------------------------------------------------------------------------

pub const JSON_KEYS: [&str; 8] = ["a", "b", "key", "name", "", "zz", "k0", "nested"];

fn jsonb_value(v: &JsonbValue<'_>, depth: usize) {
    let _ = v.to_json_string();
    if depth > 6 {
        return;
    }
    match v {
        JsonbValue::Array(a) | JsonbValue::Object(a) => jsonb_view(a, depth + 1, 0),
        _ => {}
    }
}

fn jsonb_view(view: &JsonbView<'_>, depth: usize, sel: u8) {
    let _ = view.root_type();
    let n = view.entry_count();
    step(|| drop(view.as_value()));
    let _ = view.array_len();
    let _ = view.object_len();
    let k = JSON_KEYS[(sel % 8) as usize];
    step(|| {
        if let Ok(Some(v)) = view.get(k) {
            jsonb_value(&v, depth);
        }
    });
    for k in JSON_KEYS {
        step(|| drop(view.get(k)));
    }
    step(|| drop(view.get_path(&[k, "a", "b"])));
    step(|| drop(view.get_path(&[])));
    for i in [0usize, 1, 2, n.saturating_sub(1), n, n / 2] {
        step(|| {
            if let Ok(Some(v)) = view.array_get(i) {
                jsonb_value(&v, depth);
            }
        });
    }
    step(|| {
        if let Ok(it) = view.iter_object() {
            for (i, item) in it.enumerate() {
                if item.is_err() || i > 4096 {
                    break;
                }
            }
        }
    });
    step(|| {
        if let Ok(it) = view.iter_array() {
            for (i, item) in it.enumerate() {
                if item.is_err() || i > 4096 {
                    break;
                }
            }
        }
    });
    step(|| drop(view.to_json_string()));
}

fn jsonb(input: &[u8], r: &mut Report) {
    let Some((sel, data)) = input.split_first() else {
        r.class("short_input");
        return;
    };
    match JsonbView::new(data) {
        Ok(view) => {
            r.deep = true;
            jsonb_view(&view, 0, *sel);
            r.accepted = step(|| view.to_json_string().is_ok()) == Some(true);
            r.class(if r.accepted { "jsonb_ok" } else { "jsonb_err" });
        }
        Err(_) => r.class("rejected_by_new"),
    }
}

// --------------------------------------------------------------------------------------
// array: the bytes of an array value
// --------------------------------------------------------------------------------------

fn array_walk(a: &ArrayView<'_>, r: &mut Report) {
    let n = a.len();
    let _ = a.is_empty();
    let _ = a.ndims();
    let Some(et) = step(|| a.elem_type()) else { return };
    r.accepted = true;
    let idxs: Vec<usize> = if n <= 64 { (0..n + 1).collect() } else { vec![0, 1, 7, 8, n / 2, n - 2, n - 1, n] };
    for i in idxs {
        step(|| array_elem(a, et, i));
    }
}

fn array_elem(a: &ArrayView<'_>, et: DataType, i: usize) {
    {
        let null = a.is_null(i);
        match et {
            DataType::Int2 => drop(a.get_int2(i)),
            DataType::Int4 | DataType::Date => drop(a.get_int4(i)),
            DataType::Int8 | DataType::Time | DataType::Timestamp => drop(a.get_int8(i)),
            DataType::Float4 => drop(a.get_float4(i)),
            DataType::Float8 => drop(a.get_float8(i)),
            DataType::Bool => drop(a.get_bool(i)),
            DataType::Text | DataType::Varchar | DataType::Char => drop(a.get_text(i)),
            _ => drop(a.get_blob(i)),
        }
        let _ = null;
    }
}

fn array(input: &[u8], r: &mut Report) {
    match ArrayView::new(input) {
        Ok(a) => {
            r.deep = true;
            array_walk(&a, r);
        }
        Err(_) => r.class("rejected_by_new"),
    }
}

// --------------------------------------------------------------------------------------
// composite: [field count : u8] [bytes ...]
// --------------------------------------------------------------------------------------

fn composite_walk(c: &CompositeView<'_>) {
    let n = c.field_count();
    for i in 0..=n.min(40) {
        step(|| {
            let _ = c.is_null(i);
            let _ = c.get_field(i);
            if let Ok(nc) = c.get_nested_composite(i, 2) {
                let _ = nc.is_null(0);
                let _ = nc.get_field(0);
                let _ = nc.get_field(1);
            }
        });
    }
}

fn composite(input: &[u8], r: &mut Report) {
    let Some((fc, data)) = input.split_first() else {
        r.class("short_input");
        return;
    };
    match CompositeView::new(data, *fc as usize) {
        Ok(c) => {
            r.deep = true;
            r.accepted = true;
            composite_walk(&c);
        }
        Err(_) => r.class("rejected_by_new"),
    }
}

// --------------------------------------------------------------------------------------
// catalog: the serialized catalog (the part of turdb.catalog behind the 128-byte header)
// catalog_file: a whole catalog file
// --------------------------------------------------------------------------------------

fn catalog_use(cat: &Catalog, r: &mut Report) {
    let mut tables = 0;
    for (_, s) in cat.schemas() {
        for (_, t) in s.tables() {
            tables += 1;
            let _ = t.columns().len();
            let _ = t.primary_key();
            let _ = t.indexes().len();
            let _ = turdb::types::create_record_schema(t.columns());
        }
    }
    if tables > 0 {
        r.class("catalog_with_tables");
    }
}

fn catalog(input: &[u8], r: &mut Report) {
    let mut cat = Catalog::new();
    match CatalogPersistence::deserialize(input, &mut cat) {
        Ok(()) => {
            r.accepted = true;
            r.deep = !input.is_empty();
            catalog_use(&cat, r);
            // a catalog that decodes must serialize again (what save() does on close)
            let _ = CatalogPersistence::serialize(&cat);
        }
        Err(_) => {
            r.class("catalog_err");
            r.deep = input.len() > 12;
        }
    }
}

fn catalog_file(input: &[u8], r: &mut Report) {
    let sc = Scratch::new("cat");
    let p = sc.0.join("turdb.catalog");
    std::fs::write(&p, input).expect("write scratch catalog");
    let mut cat = Catalog::new();
    match CatalogPersistence::load(&p, &mut cat) {
        Ok(()) => {
            r.accepted = true;
            r.deep = true;
            catalog_use(&cat, r);
        }
        Err(_) => {
            r.class("catalog_file_err");
            r.deep = input.len() >= 128;
        }
    }
}

// --------------------------------------------------------------------------------------
// wal: a compact description of one segment file; 20-byte frame descriptors
//   [flags][fill][page_no u32][db_size u32][file_id u64][patch_off u16]
//   flags bit0: store a valid checksum   bit1: XOR `fill|1` into the frame at patch_off
//   (after the checksum)   bit2: cut the file inside this frame at patch_off and stop
//   bit3: all-zero frame   bit4: salts zero   bit5: page = real leaf page bytes
// a trailing partial descriptor is appended to the file as raw bytes.
// --------------------------------------------------------------------------------------

pub const WAL_DESC: usize = 20;
const FRAME: usize = WAL_FRAME_HEADER_SIZE + PAGE_SIZE;

pub struct WalDesc {
    pub flags: u8,
    pub fill: u8,
    pub page_no: u32,
    pub db_size: u32,
    pub file_id: u64,
    pub patch_off: u16,
}

impl WalDesc {
    pub fn encode(&self) -> [u8; WAL_DESC] {
        let mut b = [0u8; WAL_DESC];
        b[0] = self.flags;
        b[1] = self.fill;
        b[2..6].copy_from_slice(&self.page_no.to_le_bytes());
        b[6..10].copy_from_slice(&self.db_size.to_le_bytes());
        b[10..18].copy_from_slice(&self.file_id.to_le_bytes());
        b[18..20].copy_from_slice(&self.patch_off.to_le_bytes());
        b
    }
    pub fn decode(b: &[u8]) -> WalDesc {
        WalDesc {
            flags: b[0],
            fill: b[1],
            page_no: u32::from_le_bytes(b[2..6].try_into().unwrap()),
            db_size: u32::from_le_bytes(b[6..10].try_into().unwrap()),
            file_id: u64::from_le_bytes(b[10..18].try_into().unwrap()),
            patch_off: u16::from_le_bytes(b[18..20].try_into().unwrap()),
        }
    }
}

/// CRC-64/ECMA-182 (poly 0x42F0E1EBA9EA3693, init 0, not reflected, no final xor) over the
/// header fields before the checksum and the page: what `storage::wal::compute_checksum`
/// (not exported) computes. The target's class histogram shows whether frames validate.
fn crc64_ecma(chunks: &[&[u8]]) -> u64 {
    static TABLE: std::sync::OnceLock<[u64; 256]> = std::sync::OnceLock::new();
    let t = TABLE.get_or_init(|| {
        let mut t = [0u64; 256];
        for (i, e) in t.iter_mut().enumerate() {
            let mut c = (i as u64) << 56;
            for _ in 0..8 {
                c = if c & (1 << 63) != 0 { (c << 1) ^ 0x42F0_E1EB_A9EA_3693 } else { c << 1 };
            }
            *e = c;
        }
        t
    });
    let mut crc = 0u64;
    for ch in chunks {
        for b in *ch {
            crc = t[((crc >> 56) as u8 ^ b) as usize] ^ (crc << 8);
        }
    }
    crc
}

fn wal_checksum(h: &WalFrameHeader, page: &[u8]) -> u64 {
    crc64_ecma(&[&h.file_id.to_le_bytes(), &h.page_no.to_le_bytes(), &h.db_size.to_le_bytes(), &h.salt1.to_le_bytes(), &h.salt2.to_le_bytes(), page])
}

pub fn wal_segment_bytes(input: &[u8]) -> (Vec<u8>, Vec<WalDesc>) {
    let mut file = Vec::new();
    let mut descs = Vec::new();
    let mut chunks = input.chunks_exact(WAL_DESC);
    for (i, c) in (&mut chunks).enumerate() {
        if i >= 12 {
            break;
        }
        let d = WalDesc::decode(c);
        let mut frame = vec![0u8; FRAME];
        if d.flags & 8 == 0 {
            let mut page = vec![d.fill; PAGE_SIZE];
            page[..4].copy_from_slice(&d.page_no.to_le_bytes());
            if d.flags & 32 != 0 {
                // a well-formed empty leaf page, like the ones the engine logs
                let mut p = vec![0u8; PAGE_SIZE];
                if turdb::btree::LeafNodeMut::init(&mut p).is_ok() {
                    page = p;
                }
            }
            let (s1, s2) = if d.flags & 16 != 0 { (0, 0) } else { (0x1234_5678, 0x9abc_def0) };
            let mut h = WalFrameHeader::new_with_file_id(d.page_no, d.db_size, s1, s2, 0, d.file_id);
            h.checksum = if d.flags & 1 != 0 { wal_checksum(&h, &page) } else { 0x5555_5555_5555_5555 ^ d.fill as u64 };
            frame[0..8].copy_from_slice(&h.file_id.to_le_bytes());
            frame[8..12].copy_from_slice(&h.page_no.to_le_bytes());
            frame[12..16].copy_from_slice(&h.db_size.to_le_bytes());
            frame[16..20].copy_from_slice(&h.salt1.to_le_bytes());
            frame[20..24].copy_from_slice(&h.salt2.to_le_bytes());
            frame[24..32].copy_from_slice(&h.checksum.to_le_bytes());
            frame[WAL_FRAME_HEADER_SIZE..].copy_from_slice(&page);
        }
        let po = d.patch_off as usize % FRAME;
        if d.flags & 2 != 0 {
            frame[po] ^= d.fill | 1;
        }
        if d.flags & 4 != 0 {
            file.extend_from_slice(&frame[..po]);
            descs.push(d);
            return (file, descs);
        }
        file.extend_from_slice(&frame);
        descs.push(d);
    }
    file.extend_from_slice(chunks.remainder());
    (file, descs)
}

fn wal(input: &[u8], r: &mut Report) {
    let (bytes, descs) = wal_segment_bytes(input);
    let sc = Scratch::new("wal");
    let dir = sc.0.join("wal");
    std::fs::create_dir_all(&dir).expect("wal dir");
    let seg = dir.join("wal.000001");
    std::fs::write(&seg, &bytes).expect("write segment");
    r.deep = !descs.is_empty();
    // sequential readers
    let mut good = 0u32;
    if let Ok(mut s) = WalSegment::open(&seg, 1) {
        for _ in 0..64 {
            match s.read_frame() {
                Ok((h, page)) => {
                    good += 1;
                    let _ = (h.frame_type(), h.actual_file_id(), h.undo_table_id(), h.undo_txn_id(), h.is_undo_frame(), h.is_redo_frame(), page.len());
                }
                Err(_) => break,
            }
        }
        let _ = s.reset_position();
        let mut buf = vec![0u8; FRAME];
        for _ in 0..64 {
            if s.read_frame_into(&mut buf).is_err() {
                break;
            }
        }
        let _ = s.reset_position();
        for _ in 0..64 {
            if s.read_header_only().is_err() {
                break;
            }
        }
    }
    r.class(match good {
        0 => "wal_frames=0",
        1 => "wal_frames=1",
        _ => "wal_frames>=2",
    });
    r.accepted = good > 0;
    // the log as the engine opens it
    match Wal::open(&dir) {
        Ok(w) => {
            let _ = w.frame_count();
            for d in &descs {
                let _ = w.read_page(d.file_id, d.page_no);
                let _ = w.read_page(d.file_id & 0x00FF_FFFF_FFFF_FFFF, d.page_no);
            }
            let store = sc.0.join("t.tbd");
            if let Ok(mut st) = MmapStorage::create(&store, 4) {
                let a = w.recover(&mut st);
                r.class(if a.is_ok() { "recover_ok" } else { "recover_err" });
                let _ = w.recover_for_file(&mut st, descs.first().map(|d| d.file_id).unwrap_or(0));
            }
        }
        Err(_) => r.class("wal_open_err"),
    }
}

// --------------------------------------------------------------------------------------
// file headers: the first bytes of a .tbd / .idx / turdb.meta / .hnsw file
// --------------------------------------------------------------------------------------

fn hdr_table(input: &[u8], r: &mut Report) {
    match TableFileHeader::from_bytes(input) {
        Ok(h) => {
            r.accepted = true;
            r.deep = true;
            let _ = (h.table_id(), h.row_count(), h.root_page(), h.column_count(), h.first_free_page(), h.auto_increment(), h.rightmost_hint());
            // (decode + read accessors only: the counters of the write path, increment_row_count /
            // next_auto_increment, overflow on a header holding u64::MAX, which is outside
            // "decoding returns a value or an error")
            let mut copy = input.to_vec();
            let _ = TableFileHeader::from_bytes_mut(&mut copy).map(|h| h.row_count());
        }
        Err(_) => r.class("hdr_err"),
    }
}

fn hdr_index(input: &[u8], r: &mut Report) {
    match IndexFileHeader::from_bytes(input) {
        Ok(h) => {
            r.accepted = true;
            r.deep = true;
            let _ = (h.index_id(), h.table_id(), h.root_page(), h.key_column_count(), h.is_unique(), h.index_type());
            let mut copy = input.to_vec();
            let _ = IndexFileHeader::from_bytes_mut(&mut copy).map(|h| h.root_page());
        }
        Err(_) => r.class("hdr_err"),
    }
}

fn hdr_meta(input: &[u8], r: &mut Report) {
    match MetaFileHeader::from_bytes(input) {
        Ok(h) => {
            r.accepted = true;
            r.deep = true;
            let _ = (h.version(), h.page_size(), h.schema_count(), h.default_schema_id(), h.next_table_id(), h.next_index_id(), h.flags());
        }
        Err(_) => r.class("hdr_err"),
    }
}

fn hdr_hnsw(input: &[u8], r: &mut Report) {
    match HnswFileHeader::from_bytes(input) {
        Ok(h) => {
            r.accepted = true;
            r.deep = true;
            let _ = (h.index_id(), h.table_id(), h.dimensions(), h.m(), h.m0(), h.ef_construction(), h.ef_search());
            let _ = (h.distance_fn(), h.quantization(), h.entry_point(), h.max_level(), h.node_count(), h.vector_count(), h.first_free_page());
            let mut copy = input.to_vec();
            let _ = HnswFileHeader::from_bytes_mut(&mut copy).map(|h| h.node_count());
        }
        Err(_) => r.class("hdr_err"),
    }
}

// --------------------------------------------------------------------------------------
// pages: [head_len : u16 LE] [head bytes] [tail bytes]
//   page[0..head_len] = head, page[PAGE-tail_len..] = tail (both clamped), rest zero.
//   A full page is head_len = 16384 and no tail.
// --------------------------------------------------------------------------------------

pub fn page_from_input(input: &[u8]) -> Option<Vec<u8>> {
    if input.len() < 2 {
        return None;
    }
    let body = &input[2..];
    let head_len = (u16::from_le_bytes([input[0], input[1]]) as usize).min(body.len()).min(PAGE_SIZE);
    let (head, tail) = body.split_at(head_len);
    let tail = &tail[..tail.len().min(PAGE_SIZE)];
    let mut page = vec![0u8; PAGE_SIZE];
    page[PAGE_SIZE - tail.len()..].copy_from_slice(tail);
    page[..head.len()].copy_from_slice(head);
    Some(page)
}

/// Inverse for a full page: drops the longest run of zero bytes.
pub fn page_to_input(page: &[u8]) -> Vec<u8> {
    assert_eq!(page.len(), PAGE_SIZE);
    let mut best = (0usize, 0usize);
    let mut i = 0;
    while i < page.len() {
        if page[i] == 0 {
            let s = i;
            while i < page.len() && page[i] == 0 {
                i += 1;
            }
            if i - s > best.1 - best.0 {
                best = (s, i);
            }
        } else {
            i += 1;
        }
    }
    let head = &page[..best.0];
    let tail = &page[best.1..];
    let mut out = Vec::with_capacity(2 + head.len() + tail.len());
    out.extend_from_slice(&(head.len() as u16).to_le_bytes());
    out.extend_from_slice(head);
    out.extend_from_slice(tail);
    out
}

fn page_header(input: &[u8], r: &mut Report) {
    match PageHeader::from_bytes(input) {
        Ok(h) => {
            r.accepted = true;
            r.deep = true;
            let _ = (h.page_type(), h.cell_count(), h.free_space(), h.next_leaf(), h.right_child());
            let _ = turdb::storage::validate_page(input);
        }
        Err(_) => r.class("hdr_err"),
    }
}

const PROBES: [&[u8]; 6] = [b"", b"\x00", b"\x16\x00\x00\x00\x00\x00\x00\x00\x05", b"abc", b"\xff\xff\xff\xff\xff", b"\x20key\x00\x00"];

fn leaf(input: &[u8], r: &mut Report) {
    let Some(page) = page_from_input(input) else {
        r.class("short_input");
        return;
    };
    let node = match LeafNode::from_page(&page) {
        Ok(n) => n,
        Err(_) => {
            r.class("not_a_leaf");
            return;
        }
    };
    r.deep = true;
    r.accepted = true;
    let n = node.cell_count() as usize;
    let _ = (node.free_space(), node.next_leaf());
    let idxs: Vec<usize> = if n <= 256 { (0..=n).collect() } else { vec![0, 1, 7, 8, 9, n / 2, n - 1, n, 2047, 2048] };
    for i in idxs {
        step(|| drop(node.slot_at(i).map(|s| (s.offset(), s.key_len(), s.prefix_as_u32()))));
        step(|| drop(node.key_at(i)));
        step(|| drop(node.value_at(i)));
        step(|| drop(node.value_len_at(i)));
    }
    for p in PROBES {
        step(|| drop(node.find_key(p)));
    }
    if n > 0 {
        step(|| {
            if let Ok(k) = node.key_at(n / 2) {
                let _ = node.find_key(k);
            }
        });
    }
    r.class(match n {
        0 => "cells=0",
        1..=1000 => "cells<=1000",
        _ => "cells>1000",
    });
}

fn interior(input: &[u8], r: &mut Report) {
    let Some(page) = page_from_input(input) else {
        r.class("short_input");
        return;
    };
    let node = match InteriorNode::from_page(&page) {
        Ok(n) => n,
        Err(_) => {
            r.class("not_interior");
            return;
        }
    };
    r.deep = true;
    r.accepted = true;
    let n = node.cell_count() as usize;
    let _ = node.right_child();
    let idxs: Vec<usize> = if n <= 256 { (0..=n).collect() } else { vec![0, 1, n / 2, n - 1, n, 2047, 2048] };
    for i in idxs {
        step(|| drop(node.slot_at(i).map(|s| (s.child_page(), s.offset(), s.key_len(), s.prefix_as_u32()))));
        step(|| drop(node.key_at(i)));
    }
    for p in PROBES {
        step(|| drop(node.find_child(p)));
    }
}

// --------------------------------------------------------------------------------------
// btree_walk: [which page : u8] [page input as above]
//   A valid 3-level-capable tree (root interior + leaves) is built in memory once per call,
//   page `which % page_count` (never page 0, the file header page) is replaced by the
//   decoded page, then the tree is read the way a scan / point lookup / index probe does.
// --------------------------------------------------------------------------------------

pub struct MemStorage {
    pub pages: Vec<Box<[u8]>>,
}

impl MemStorage {
    pub fn new(n: u32) -> Self {
        MemStorage { pages: (0..n).map(|_| vec![0u8; PAGE_SIZE].into_boxed_slice()).collect() }
    }
}

impl Storage for MemStorage {
    fn page(&self, page_no: u32) -> eyre::Result<&[u8]> {
        self.pages.get(page_no as usize).map(|p| &p[..]).ok_or_else(|| eyre::eyre!("page {} out of bounds (page_count={})", page_no, self.pages.len()))
    }
    fn page_mut(&mut self, page_no: u32) -> eyre::Result<&mut [u8]> {
        let n = self.pages.len();
        self.pages.get_mut(page_no as usize).map(|p| &mut p[..]).ok_or_else(|| eyre::eyre!("page {} out of bounds (page_count={})", page_no, n))
    }
    fn grow(&mut self, new_page_count: u32) -> eyre::Result<()> {
        eyre::ensure!(new_page_count <= 4096, "harness storage refuses to grow to {} pages", new_page_count);
        while (self.pages.len() as u32) < new_page_count {
            self.pages.push(vec![0u8; PAGE_SIZE].into_boxed_slice());
        }
        Ok(())
    }
    fn page_count(&self) -> u32 {
        self.pages.len() as u32
    }
    fn sync(&self) -> eyre::Result<()> {
        Ok(())
    }
}

pub fn walk_key(i: u32) -> Vec<u8> {
    let mut k = vec![0x16u8];
    k.extend_from_slice(&(i as u64).to_be_bytes());
    k
}

/// (storage, root) of a valid tree with `n` int keys and ~600-byte values (splits after ~25)
pub fn build_tree(n: u32) -> (MemStorage, u32) {
    let mut st = MemStorage::new(2);
    let root = {
        let mut bt = BTree::create(&mut st, 1).expect("create tree");
        for i in 0..n {
            let v = vec![(i % 251) as u8; 600];
            bt.insert(&walk_key(i * 2), &v).expect("insert into harness tree");
        }
        bt.root_page()
    };
    (st, root)
}

pub const WALK_KEYS: u32 = 120;

fn btree_walk(input: &[u8], r: &mut Report) {
    let Some((which, rest)) = input.split_first() else {
        r.class("short_input");
        return;
    };
    let Some(page) = page_from_input(rest) else {
        r.class("short_input");
        return;
    };
    let (mut st, root) = build_tree(WALK_KEYS);
    let pc = st.page_count();
    let target = 1 + (*which as u32 % (pc - 1));
    st.pages[target as usize].copy_from_slice(&page);
    r.deep = true;
    r.class(if target == root { "walk_corrupt_root" } else { "walk_corrupt_other" });
    // an upper bound for the entries of any finite tree over these pages
    let bound = (pc as usize) * 2100;
    let bt = match BTree::new(&mut st, root) {
        Ok(b) => b,
        Err(_) => {
            r.class("walk_open_err");
            return;
        }
    };
    for k in [0u32, 1, 60, 119, 238, 239, 1000] {
        step(|| {
            let _ = bt.get(&walk_key(k));
            if let Ok(Some(h)) = bt.search(&walk_key(k)) {
                let _ = bt.get_key(&h);
                let _ = bt.get_value(&h);
            }
        });
    }
    let fwd = step(|| {
        let mut steps = 0usize;
        if let Ok(mut c) = bt.cursor_first() {
            while c.valid() {
                if c.key().is_err() || c.value().is_err() {
                    break;
                }
                steps += 1;
                if steps > bound {
                    break;
                }
                match c.advance() {
                    Ok(true) => {}
                    _ => break,
                }
            }
        }
        steps
    });
    r.accepted = fwd.unwrap_or(0) > 0;
    if fwd.unwrap_or(0) > bound {
        r.violation = Some((
            "C23|btree_walk|nontermination|cursor_forward".into(),
            format!("forward cursor yielded more than {} entries over a {}-page file after page {} was corrupted (cyclic leaf chain?)", bound, pc, target),
        ));
        return;
    }
    let bwd = step(|| {
        let mut steps = 0usize;
        if let Ok(mut c) = bt.cursor_last() {
            while c.valid() {
                if c.key().is_err() || c.value().is_err() {
                    break;
                }
                steps += 1;
                if steps > bound {
                    break;
                }
                match c.prev() {
                    Ok(true) => {}
                    _ => break,
                }
            }
        }
        steps
    });
    if bwd.unwrap_or(0) > bound {
        r.violation = Some((
            "C23|btree_walk|nontermination|cursor_backward".into(),
            format!("backward cursor yielded more than {} entries over a {}-page file after page {} was corrupted", bound, pc, target),
        ));
        return;
    }
    let seek = step(|| {
        let mut steps = 0usize;
        if let Ok(mut c) = bt.cursor_seek(&walk_key(100)) {
            while c.valid() && steps <= bound {
                if c.key().is_err() {
                    break;
                }
                steps += 1;
                match c.advance() {
                    Ok(true) => {}
                    _ => break,
                }
            }
        }
        steps
    });
    if seek.unwrap_or(0) > bound {
        r.violation = Some(("C23|btree_walk|nontermination|cursor_seek".into(), format!("cursor_seek + advance yielded more than {} entries", bound)));
    }
}

fn hnsw_page(input: &[u8], r: &mut Report) {
    let Some(mut page) = page_from_input(input) else {
        r.class("short_input");
        return;
    };
    if let Ok(h) = HnswPageHeader::from_bytes(&page) {
        let _ = (h.slot_count(), h.free_start(), h.free_end(), h.free_space(), h.active_nodes(), h.deleted_nodes(), h.total_free_space(), h.next_page());
    }
    match HnswPage::from_bytes_readonly(&page) {
        Ok(p) => {
            r.deep = true;
            r.accepted = true;
            let n = p.slot_count();
            let _ = p.free_space();
            let _ = p.can_fit(100);
            for i in (0..n.min(300)).chain([n, u16::MAX]) {
                let _ = p.get_slot(i);
                let _ = p.read_node_data(i);
            }
        }
        Err(_) => r.class("hnsw_page_err"),
    }
    if let Ok(p) = HnswPage::from_bytes(&mut page) {
        let n = p.slot_count();
        let _ = (p.free_space(), p.active_nodes());
        for i in (0..n.min(300)).chain([n]) {
            let _ = p.get_slot(i);
            let _ = p.read_node_data(i);
        }
    }
}

fn toast_ptr(input: &[u8], r: &mut Report) {
    match ToastPointer::decode(input) {
        Ok(p) => {
            r.accepted = true;
            r.deep = true;
            let _ = (p.row_id(), p.column_index(), p.total_size, p.chunk_id);
            let _ = p.encode();
        }
        Err(_) => r.class("toast_err"),
    }
    let _ = turdb::storage::toast::is_toast_pointer(input);
}

fn row_serde(input: &[u8], r: &mut Report) {
    let mut off = 0usize;
    let mut out: SmallVec<[turdb::types::Value<'static>; 16]> = SmallVec::new();
    let mut rows = 0;
    while off < input.len() && rows < 64 {
        let before = off;
        match RowSerde::deserialize_row_into(input, &mut off, &mut out) {
            Ok(()) => {
                rows += 1;
                r.deep = true;
                if off <= before || off > input.len() {
                    r.violation = Some(("C23|row_serde|overrun|deserialize_row_into".into(), format!("offset moved from {} to {} over {} bytes", before, off, input.len())));
                    return;
                }
                let _ = RowSerde::row_size(&out);
            }
            Err(_) => {
                r.class("row_err");
                break;
            }
        }
    }
    r.accepted = rows > 0;
}
