//! C23 file corruption: a valid multi-table database (tables with primary keys, UNIQUE and
//! secondary indexes, a composite index, JSONB, TOAST-sized values, an HNSW index, some
//! deletes; closed cleanly) is built once per process; a case copies it, applies 1–8 byte
//! edits or truncations, opens the copy and runs every table scan and index probe.
//!
//! Input format: 6-byte edit records `[file][mode][pos lo][pos hi][val][extra]`
//! (at least one, at most eight). `file` indexes the sorted list of the database's files.
//!   mode%8: 0 file header byte (offset pos%128)        1 page header byte of page `extra`
//!           2 slot-array byte of page `extra`          3 any byte := val
//!           4 any byte ^= val|1                        5 truncate to any length
//!           6 truncate to a page boundary (+ partial)  7 byte in the cell area at the page end

use std::path::{Path, PathBuf};
use std::sync::OnceLock;

use turdb::{Database, ExecuteResult, OwnedValue};

use crate::dec::Scratch;
use crate::guard::step;
use crate::Report;

const PAGE: u64 = 16384;

// NOTE: the SQL that builds the template is part of the input format: an edit record
// addresses (file index, offset) of the files this script produces. Changing the script
// shifts what the committed dbfile witnesses under findings/C23 corrupt.
pub struct Image {
    pub dir: PathBuf,
    /// (relative path, length) sorted by path
    pub files: Vec<(String, u64)>,
    /// result fingerprint of every probe statement on the pristine copy
    pub baseline: Vec<String>,
}

pub struct Template {
    /// closed cleanly (checkpointed, no WAL segments)
    pub clean: Image,
    /// the directory as it was while a handle with WAL = ON had unflushed work: what a
    /// crash leaves behind; opening it runs WAL recovery
    pub crashed: Image,
}

static TEMPLATE: OnceLock<Template> = OnceLock::new();
static OWNER: std::sync::atomic::AtomicBool = std::sync::atomic::AtomicBool::new(false);

/// Parent side: build the template now and publish it to the children spawned later.
pub fn publish_template() {
    let t = template();
    if let Some(base) = t.clean.dir.parent() {
        OWNER.store(true, std::sync::atomic::Ordering::SeqCst);
        std::env::set_var("VERIF_DBFILE_TEMPLATE", base);
    }
}

pub const STATEMENTS: &[&str] = &[
    "SELECT * FROM users",
    "SELECT COUNT(*) FROM users",
    "SELECT * FROM users WHERE id = 7",
    "SELECT * FROM users WHERE id = 250",
    "SELECT * FROM users WHERE email = 'user42@example.com'",
    "SELECT * FROM users WHERE age = 33",
    "SELECT id, name FROM users WHERE age > 60",
    "SELECT * FROM orders",
    "SELECT COUNT(*) FROM orders",
    "SELECT * FROM orders WHERE id = 100",
    "SELECT * FROM orders WHERE user_id = 5",
    "SELECT * FROM orders WHERE user_id = 5 AND amount = 12.5",
    "SELECT * FROM docs",
    "SELECT COUNT(*) FROM docs",
    "SELECT id, body FROM docs WHERE id = 3",
    "SELECT * FROM kv",
    "SELECT * FROM kv WHERE k = 'key-17'",
    "SELECT * FROM vecs",
    "SELECT * FROM vecs WHERE id = 4",
    "SELECT u.name, o.amount FROM users u JOIN orders o ON u.id = o.user_id WHERE u.id < 10",
];

fn fingerprint(r: &eyre::Result<ExecuteResult>) -> String {
    match r {
        Ok(ExecuteResult::Select { rows, .. }) => {
            let mut h = Vec::new();
            for row in rows {
                let mut s = String::new();
                for v in &row.values {
                    match v {
                        OwnedValue::Text(t) => s.push_str(&format!("T{}:{:x};", t.len(), vcore::hash_of(t))),
                        OwnedValue::Blob(b) => s.push_str(&format!("B{}:{:x};", b.len(), vcore::hash_of(b))),
                        other => s.push_str(&format!("{:?};", other).chars().take(80).collect::<String>()),
                    }
                }
                h.push(vcore::hash_of(&s));
            }
            h.sort();
            format!("rows={} h={:x}", rows.len(), vcore::hash_of(&h))
        }
        Ok(o) => format!("{:?}", o).chars().take(40).collect(),
        Err(_) => "ERR".to_string(),
    }
}

fn list_files(dir: &Path, base: &Path, out: &mut Vec<(String, u64)>) {
    let Ok(rd) = std::fs::read_dir(dir) else { return };
    for e in rd.flatten() {
        let p = e.path();
        if p.is_dir() {
            list_files(&p, base, out);
        } else if let Ok(m) = e.metadata() {
            out.push((p.strip_prefix(base).unwrap().to_string_lossy().to_string(), m.len()));
        }
    }
}

/// The parent process of a run builds the template once and hands its location to its
/// children in VERIF_DBFILE_TEMPLATE, so every case of a run corrupts the same bytes.
fn build_template() -> Template {
    if let Ok(shared) = std::env::var("VERIF_DBFILE_TEMPLATE") {
        let base = PathBuf::from(shared);
        if base.join("clean").is_dir() && base.join("crashed").is_dir() {
            return Template { clean: image_of(base.join("clean")), crashed: image_of(base.join("crashed")) };
        }
    }
    let base = vcore::tmp::base().join(format!("vt-template-{}", std::process::id()));
    let _ = std::fs::remove_dir_all(&base);
    let dir = base.join("clean");
    std::fs::create_dir_all(dir.parent().unwrap()).expect("scratch base");
    let db = Database::create(&dir).expect("create template database");
    let x = |sql: &str| {
        db.execute(sql).unwrap_or_else(|e| panic!("template statement failed: {} :: {}", sql, e));
    };
    x("CREATE TABLE users (id INT PRIMARY KEY, name TEXT, email TEXT UNIQUE, age INT, bio TEXT, score DOUBLE, active BOOLEAN, meta JSONB)");
    x("CREATE INDEX idx_users_age ON users(age)");
    x("CREATE TABLE orders (id BIGINT PRIMARY KEY, user_id INT, amount DOUBLE, note TEXT, created DATE)");
    x("CREATE INDEX idx_orders_user ON orders(user_id)");
    x("CREATE INDEX idx_orders_ua ON orders(user_id, amount)");
    x("CREATE TABLE docs (id INT PRIMARY KEY, body TEXT, payload BLOB)");
    x("CREATE TABLE kv (k TEXT PRIMARY KEY, v TEXT)");
    x("CREATE TABLE vecs (id INT PRIMARY KEY, v VECTOR(3))");
    for i in 1..=300u32 {
        let meta = if i % 3 == 0 { "NULL".to_string() } else { format!("'{{\"a\": {}, \"tags\": [\"x\", \"y{}\"], \"nested\": {{\"k\": true}}}}'", i, i) };
        x(&format!(
            "INSERT INTO users VALUES ({}, 'name{}', 'user{}@example.com', {}, '{}', {}.25, {}, {})",
            i,
            i,
            i,
            18 + (i * 7) % 60,
            "bio ".repeat((i % 40) as usize),
            i,
            if i % 2 == 0 { "TRUE" } else { "FALSE" },
            meta
        ));
    }
    for i in 1..=200u32 {
        x(&format!("INSERT INTO orders VALUES ({}, {}, {}.5, 'note {}', '2024-{:02}-{:02}')", i, 1 + i % 40, i % 30, i, 1 + i % 12, 1 + i % 28));
    }
    for i in 1..=10u32 {
        let body: String = (0..(1500 + i * 700)).map(|j| (b'a' + ((i + j) % 26) as u8) as char).collect();
        x(&format!("INSERT INTO docs VALUES ({}, '{}', NULL)", i, body));
    }
    for i in 0..60u32 {
        x(&format!("INSERT INTO kv VALUES ('key-{}', 'value {}')", i, "v".repeat((i * 3) as usize)));
    }
    for i in 1..=12u32 {
        x(&format!("INSERT INTO vecs VALUES ({}, '[{}, {}.5, {}]')", i, i, i, 12 - i));
    }
    // (a B-tree index, not an HNSW one: the HNSW layout depends on clock-seeded random levels,
    // and the files of the template are part of the input format; HNSW headers and pages have
    // their own targets)
    x("CREATE INDEX idx_vecs_v ON vecs(id)");
    x("DELETE FROM users WHERE id > 100 AND id < 120");
    x("DELETE FROM orders WHERE user_id = 9");
    x("DELETE FROM docs WHERE id = 7");
    x("DELETE FROM kv WHERE k = 'key-3'");
    x("UPDATE users SET age = 33 WHERE id = 250");
    db.close().expect("close template database");
    drop(db);
    let clean = image_of(dir.clone());
    // crash image: reopen, WAL on, more work, copy the directory while the handle is alive
    let work = base.join("work");
    vcore::tmp::copy_dir(&dir, &work).expect("copy template");
    let crashed_dir = base.join("crashed");
    {
        let db = Database::open(&work).expect("reopen template");
        let x = |sql: &str| {
            db.execute(sql).unwrap_or_else(|e| panic!("template statement failed: {} :: {}", sql, e));
        };
        x("PRAGMA WAL = ON");
        for i in 301..=340u32 {
            x(&format!("INSERT INTO users VALUES ({}, 'late{}', 'late{}@example.com', {}, 'w', 1.0, TRUE, NULL)", i, i, i, 20 + i % 50));
        }
        x("UPDATE users SET age = 34 WHERE id = 251");
        x("DELETE FROM kv WHERE k = 'key-17'");
        vcore::tmp::copy_dir(&work, &crashed_dir).expect("snapshot live database");
        let _ = db.close();
    }
    let _ = std::fs::remove_dir_all(&work);
    let crashed = image_of(crashed_dir);
    Template { clean, crashed }
}

fn image_of(dir: PathBuf) -> Image {
    let mut files = Vec::new();
    list_files(&dir, &dir, &mut files);
    files.sort();
    // baseline on a copy (opening may touch files)
    let sc = Scratch::new("dbbase");
    let copy = sc.0.join("db");
    vcore::tmp::copy_dir(&dir, &copy).expect("copy template");
    let db = Database::open(&copy).expect("reopen pristine template");
    let baseline = STATEMENTS.iter().map(|s| fingerprint(&db.execute(s))).collect();
    let _ = db.close();
    Image { dir, files, baseline }
}

pub fn template() -> &'static Template {
    TEMPLATE.get_or_init(build_template)
}

/// remove the per-process template directory (call before the process exits)
pub fn cleanup() {
    if std::env::var("VERIF_KEEP_TEMPLATE").is_ok() {
        return; // development aid
    }
    if std::env::var("VERIF_DBFILE_TEMPLATE").is_ok() && !OWNER.load(std::sync::atomic::Ordering::SeqCst) {
        return; // the template belongs to the parent process
    }
    if let Some(t) = TEMPLATE.get() {
        if let Some(base) = t.clean.dir.parent() {
            let _ = std::fs::remove_dir_all(base);
        }
    }
}

#[derive(Debug, Clone)]
pub struct Edit {
    pub file: u8,
    pub mode: u8,
    pub pos: u16,
    pub val: u8,
    pub extra: u8,
}

pub fn edits_of(input: &[u8]) -> Vec<Edit> {
    input.chunks_exact(6).take(8).map(|c| Edit { file: c[0], mode: c[1], pos: u16::from_le_bytes([c[2], c[3]]), val: c[4], extra: c[5] }).collect()
}

pub fn file_kind(rel: &str) -> &'static str {
    let name = rel.rsplit('/').next().unwrap_or(rel);
    if name.starts_with("wal.") || rel.starts_with("wal/") || rel.contains("/wal/") {
        "wal"
    } else if rel.ends_with(".catalog") {
        "catalog"
    } else if rel.ends_with(".meta") {
        "meta"
    } else if rel.ends_with(".hnsw") {
        "hnsw"
    } else if rel.contains("toast") {
        "toast"
    } else if rel.ends_with(".idx") {
        "index"
    } else if rel.ends_with(".tbd") {
        "table"
    } else {
        "other"
    }
}

/// Apply the edits to the copy; returns a description per edit.
pub fn apply(copy: &Path, files: &[(String, u64)], edits: &[Edit], r: &mut Report) -> Vec<String> {
    let mut desc = Vec::new();
    for e in edits {
        if files.is_empty() {
            break;
        }
        let (rel, _) = &files[e.file as usize % files.len()];
        let path = copy.join(rel);
        let Ok(mut bytes) = std::fs::read(&path) else { continue };
        let len = bytes.len() as u64;
        let pages = (len / PAGE).max(1);
        let any = ((e.pos as u64) << 8) | e.extra as u64;
        r.class(format!("file={}", file_kind(rel)));
        // WAL segments hold clock-derived salts and checksums: there a "set" edit becomes a flip,
        // so that whether the byte changes does not depend on the time the template was built
        let is_wal = file_kind(rel) == "wal";
        let mut set = |off: u64, f: &dyn Fn(u8) -> u8, what: &str, bytes: &mut Vec<u8>| {
            if len == 0 {
                return;
            }
            let off = (off % len) as usize;
            let old = bytes[off];
            bytes[off] = if is_wal { old ^ (e.val | 1) } else { f(old) };
            desc.push(format!("{} {}@{}: {:02x}->{:02x}", rel, what, off, old, bytes[off]));
        };
        match e.mode % 8 {
            0 => set((e.pos % 128) as u64, &|_| e.val, "file-header", &mut bytes),
            1 => set((e.extra as u64 % pages) * PAGE + (e.pos % 64) as u64, &|_| e.val, "page-header", &mut bytes),
            2 => set((e.extra as u64 % pages) * PAGE + 16 + (e.pos % 1024) as u64, &|_| e.val, "slot-array", &mut bytes),
            3 => set(any, &|_| e.val, "any", &mut bytes),
            4 => set(any, &|o| o ^ (e.val | 1), "flip", &mut bytes),
            5 => {
                let nl = (any % (len + 1)) as usize;
                bytes.truncate(nl);
                desc.push(format!("{} truncate {}->{}", rel, len, nl));
                r.class("edit=truncate");
            }
            6 => {
                let nl = ((e.extra as u64 % (pages + 1)) * PAGE + if e.pos % 3 == 0 { (e.pos as u64) % PAGE } else { 0 }).min(len) as usize;
                bytes.truncate(nl);
                desc.push(format!("{} truncate {}->{}", rel, len, nl));
                r.class("edit=truncate");
            }
            _ => set((e.extra as u64 % pages) * PAGE + PAGE - 1 - (e.pos % 2048) as u64, &|_| e.val, "cell-area", &mut bytes),
        }
        let _ = std::fs::write(&path, &bytes);
    }
    desc
}

pub fn run(input: &[u8]) -> Report {
    let mut r = Report::default();
    let edits = edits_of(input);
    if edits.is_empty() {
        r.class("short_input");
        return r;
    }
    // bit 7 of the first edit's mode byte selects the crash image (WAL recovery on open)
    let t = if edits[0].mode & 0x80 != 0 { &template().crashed } else { &template().clean };
    r.class(if edits[0].mode & 0x80 != 0 { "image=crashed" } else { "image=clean" });
    let sc = Scratch::new("dbcase");
    let copy = sc.0.join("db");
    vcore::tmp::copy_dir(&t.dir, &copy).expect("copy template");
    let _desc = apply(&copy, &t.files, &edits, &mut r);
    // every statement is its own step; after a panic the handle is abandoned and the copy
    // is opened again for the remaining statements (state behind a panic is not trusted)
    let open = |r: &mut Report| -> Option<Database> {
        match step(|| Database::open(&copy)) {
            Some(Ok(d)) => Some(d),
            Some(Err(_)) => {
                r.class("open_err");
                None
            }
            None => {
                r.class("open_panic");
                None
            }
        }
    };
    r.deep = true;
    let Some(mut db) = open(&mut r) else { return r };
    r.class("open_ok");
    let mut errs = 0;
    let mut diffs = 0;
    let mut reopens = 0;
    let mut i = 0;
    while i < STATEMENTS.len() {
        let sql = STATEMENTS[i];
        match step(|| {
            let res = db.execute(sql);
            (res.is_err(), fingerprint(&res))
        }) {
            Some((is_err, fp)) => {
                if is_err {
                    errs += 1;
                } else if fp != t.baseline[i] {
                    diffs += 1;
                }
            }
            None => {
                r.class("stmt_panic");
                errs += 1;
                reopens += 1;
                let old = db;
                step(move || drop(old));
                if reopens > 3 {
                    return r;
                }
                match open(&mut r) {
                    Some(d) => db = d,
                    None => return r,
                }
            }
        }
        i += 1;
    }
    step(|| drop(db.close()));
    step(move || drop(db));
    r.accepted = errs == 0;
    if errs > 0 {
        r.class("stmt_err");
    }
    if diffs > 0 {
        r.class("silent_diff");
    }
    if errs == 0 && diffs == 0 {
        r.class("no_visible_effect");
    }
    r.deep = errs > 0 || diffs > 0;
    r
}

/// human-readable description of what a case's edits do (for the failure detail)
pub fn describe(input: &[u8]) -> String {
    let edits = edits_of(input);
    if edits.is_empty() {
        return String::new();
    }
    let t = if edits[0].mode & 0x80 != 0 { &template().crashed } else { &template().clean };
    let sc = Scratch::new("dbdesc");
    let copy = sc.0.join("db");
    if vcore::tmp::copy_dir(&t.dir, &copy).is_err() {
        return String::new();
    }
    apply(&copy, &t.files, &edits, &mut Report::default()).join("; ")
}
