//! Target functions shared by `vcheck` (c22.rs / c23.rs) and the cargo-fuzz crate.
//!
//! * [`dec`]    — C23: one entry per decoder of stored bytes, input = a byte string in the
//!   target's *fuzz input format* (a few leading parameter bytes + the bytes to decode).
//! * [`dbfile`] — C23: byte-level corruption of the files of a valid database.
//! * [`sqlrun`] — C22: SQL text / API sequences against a fresh database.
//! * [`guard`]  — panic capture with property-specific signatures and the in-target
//!   allow-list of known findings used by the fuzz targets.

pub mod dbfile;
pub mod dec;
pub mod guard;
pub mod sqlrun;

/// What one execution of a target observed (no verdict: a panic never returns here).
#[derive(Debug, Default, Clone)]
pub struct Report {
    /// the decoder / statement produced a value (as opposed to `Err`)
    pub accepted: bool,
    /// class labels for the histogram
    pub classes: Vec<String>,
    /// the case reached the code behind the first validation step (non-trivial)
    pub deep: bool,
    /// an oracle violation that is not a panic (e.g. a cursor that never ends)
    pub violation: Option<(String, String)>,
}

impl Report {
    pub fn class(&mut self, c: impl Into<String>) {
        let c = c.into();
        if !self.classes.contains(&c) {
            self.classes.push(c);
        }
    }
}
