//! C22 targets: SQL text, grammar-generated statements and API call sequences against a
//! per-case fresh database (created in a scratch directory, fixed schema + a few rows).
//!
//! Input formats
//!   sql_bytes : [p : u8] [text bytes ...]     text = lossy UTF-8; p picks the parameters
//!   sql_gen   : a choice stream; `gen_sql` turns it into statements of the dialect and
//!               applies token-level mutations (all-zero bytes = the simplest statement)
//!   sql_list  : [p : u8] stmt NUL stmt NUL ...  (what vcheck stores for a generated case)
//!   api_seq   : a choice stream driving open/clone/execute/prepare/bind/pragma/close calls

use turdb::{Database, ExecuteResult, OwnedValue};

use crate::dec::Scratch;
use crate::Report;

pub const TARGETS: &[&str] = &["sql_bytes", "sql_gen", "api_seq"];

thread_local! {
    static TRACE: std::cell::RefCell<Vec<String>> = const { std::cell::RefCell::new(Vec::new()) };
}

fn trace(s: String) {
    TRACE.with(|t| {
        let mut t = t.borrow_mut();
        if t.len() < 64 {
            t.push(s);
        }
    });
}

/// the API calls of the case that ran last on this thread (kept across a panic)
pub fn take_trace() -> Vec<String> {
    TRACE.with(|t| std::mem::take(&mut *t.borrow_mut()))
}

pub fn run(target: &str, input: &[u8], deep_nesting: bool) -> Report {
    match target {
        "sql_bytes" => run_sql_bytes(input),
        "sql_gen" => {
            let stmts = gen_sql(input, deep_nesting);
            run_statements(&stmts, input.first().copied().unwrap_or(0))
        }
        "sql_list" => {
            // [p] stmt NUL stmt NUL ... : the statements of a generated case as text, so that a
            // saved case does not depend on the grammar's choice-stream mapping
            let Some((p, rest)) = input.split_first() else { return Report::default() };
            let stmts: Vec<String> = rest.split(|b| *b == 0).filter(|s| !s.is_empty()).map(|s| String::from_utf8_lossy(s).to_string()).collect();
            run_statements(&stmts, *p)
        }
        "api_seq" => run_api(input),
        _ => {
            let mut r = Report::default();
            r.class("unknown_target");
            r
        }
    }
}

// --------------------------------------------------------------------------------------
// fresh database
// --------------------------------------------------------------------------------------

pub const SETUP: &[&str] = &[
    "CREATE TABLE t1 (id INT PRIMARY KEY, a INT, b TEXT, c DOUBLE, d BOOLEAN, e BIGINT)",
    "CREATE TABLE t2 (id INT PRIMARY KEY, t1_id INT, s TEXT UNIQUE, j JSONB, dt DATE)",
    "CREATE INDEX idx_t1_a ON t1(a)",
    "INSERT INTO t1 VALUES (1, 10, 'one', 1.5, TRUE, 9223372036854775807)",
    "INSERT INTO t1 VALUES (2, 20, 'two', -2.25, FALSE, -9223372036854775808)",
    "INSERT INTO t1 VALUES (3, NULL, NULL, NULL, NULL, NULL)",
    "INSERT INTO t1 VALUES (4, 10, '', 0.0, TRUE, 0)",
    "INSERT INTO t2 VALUES (1, 1, 'x', '{\"a\": 1, \"b\": [1, 2, {\"c\": null}]}', '2024-02-29')",
    "INSERT INTO t2 VALUES (2, 1, 'y', NULL, '1970-01-01')",
    "INSERT INTO t2 VALUES (3, 9, 'z', '[]', NULL)",
    // the tables the repository's own tests use most (so that harvested statements plan and run)
    "CREATE TABLE users (id INT PRIMARY KEY, name TEXT, email TEXT, age INT, score INT, active BOOLEAN)",
    "CREATE TABLE orders (id INT PRIMARY KEY, user_id INT, amount DOUBLE, status TEXT)",
    "CREATE TABLE items (id INT PRIMARY KEY, name TEXT, price DOUBLE, quantity INT)",
    "INSERT INTO users VALUES (1, 'Alice', 'alice@example.com', 30, 90, TRUE), (2, 'Bob', 'bob@example.com', 25, 70, FALSE)",
    "INSERT INTO orders VALUES (1, 1, 100.5, 'open'), (2, 2, 20.0, 'closed')",
    "INSERT INTO items VALUES (1, 'widget', 9.99, 5), (2, 'gadget', 19.5, 0)",
];

pub struct Fresh {
    pub db: Option<Database>,
    pub scratch: Scratch,
}

static TEMPLATE: std::sync::OnceLock<std::path::PathBuf> = std::sync::OnceLock::new();

/// The fresh database of a case is a copy of a per-process template directory (built once
/// with SETUP, closed cleanly): no state is shared between cases.
pub fn fresh_db() -> Fresh {
    let t = TEMPLATE.get_or_init(|| {
        let dir = vcore::tmp::base().join(format!("vt-template-{}-s", std::process::id()));
        let _ = std::fs::remove_dir_all(&dir);
        std::fs::create_dir_all(dir.parent().unwrap()).expect("scratch base");
        let db = Database::create(&dir).expect("Database::create in an empty scratch directory");
        for s in SETUP {
            db.execute(s).unwrap_or_else(|e| panic!("harness setup statement failed: {} :: {}", s, e));
        }
        db.close().expect("close the template database");
        dir
    });
    let scratch = Scratch::new("c22");
    let path = scratch.0.join("db");
    vcore::tmp::copy_dir(t, &path).expect("copy the template database");
    let db = Database::open(&path).expect("open a copy of the template database");
    Fresh { db: Some(db), scratch }
}

pub fn cleanup() {
    if let Some(t) = TEMPLATE.get() {
        let _ = std::fs::remove_dir_all(t);
    }
}

pub fn param_pool(i: u8) -> OwnedValue {
    match i % 14 {
        0 => OwnedValue::Null,
        1 => OwnedValue::Int(1),
        2 => OwnedValue::Int(i64::MAX),
        3 => OwnedValue::Int(i64::MIN),
        4 => OwnedValue::Int(0),
        5 => OwnedValue::Float(f64::NAN),
        6 => OwnedValue::Float(1e308),
        7 => OwnedValue::Float(-0.0),
        8 => OwnedValue::Text(String::new()),
        9 => OwnedValue::Text("x".repeat(3000)),
        10 => OwnedValue::Text("two".into()),
        11 => OwnedValue::Blob(vec![0xFE; 17]),
        12 => OwnedValue::Bool(true),
        _ => OwnedValue::Float(f64::INFINITY),
    }
}

fn touch(r: &eyre::Result<ExecuteResult>) -> bool {
    match r {
        Ok(ExecuteResult::Select { rows, columns }) => {
            let _ = (rows.len(), columns.len());
            true
        }
        Ok(_) => true,
        Err(e) => {
            let _ = e.to_string();
            false
        }
    }
}

/// One statement through every entry point that takes SQL text.
pub fn run_one(db: &Database, sql: &str, p: u8, r: &mut Report) {
    let parsed = match db.prepare(sql) {
        Ok(ps) => {
            let n = ps.param_count();
            // bind with the right arity, then one too few / one too many
            let mut b = ps.bind(param_pool(p));
            for i in 1..n.min(8) {
                b = b.bind(param_pool(p.wrapping_add(i as u8)));
            }
            if n > 0 {
                let _ = b.execute(db).map(|_| ());
                if n > 1 {
                    let _ = ps.bind(param_pool(p)).query(db).map(|_| ());
                }
            } else {
                // a parameter bound to a statement without placeholders
                let _ = b.query(db).map(|_| ());
            }
            true
        }
        Err(_) => false,
    };
    if parsed {
        r.deep = true;
        r.class("parsed");
    } else {
        r.class("parse_error");
    }
    let res = db.execute(sql);
    if touch(&res) {
        r.accepted = true;
        r.class("execute_ok");
    } else if parsed {
        r.class("execute_err_after_parse");
    }
    let params: Vec<OwnedValue> = (0..(p % 4)).map(|i| param_pool(p.wrapping_add(i))).collect();
    let _ = touch(&db.execute_with_params(sql, &params));
    if p % 3 == 0 {
        let _ = db.query(sql).map(|rows| rows.len());
    }
}

pub fn run_statements(stmts: &[String], p: u8) -> Report {
    let mut r = Report::default();
    let f = fresh_db();
    let db = f.db.as_ref().unwrap();
    for s in stmts.iter().take(12) {
        run_one(db, s, p, &mut r);
    }
    if p % 2 == 0 {
        let _ = db.close();
    }
    r
}

fn run_sql_bytes(input: &[u8]) -> Report {
    let Some((p, text)) = input.split_first() else {
        let mut r = Report::default();
        r.class("short_input");
        return r;
    };
    let text = String::from_utf8_lossy(text).to_string();
    let mut stmts = vec![text.clone()];
    if text.contains(';') {
        stmts.extend(text.split(';').map(|s| s.trim().to_string()).filter(|s| !s.is_empty()).take(8));
    }
    run_statements(&stmts, *p)
}

// --------------------------------------------------------------------------------------
// grammar-aware generator over a choice stream
// --------------------------------------------------------------------------------------

thread_local! {
    /// generator feature `deep_nesting` (also lifts the bound on requested result sizes)
    static UNBOUNDED: std::cell::Cell<bool> = const { std::cell::Cell::new(false) };
}

pub struct Choices<'a> {
    data: &'a [u8],
    pos: usize,
}

impl<'a> Choices<'a> {
    pub fn new(data: &'a [u8]) -> Self {
        Choices { data, pos: 0 }
    }
    pub fn byte(&mut self) -> u8 {
        let b = self.data.get(self.pos).copied().unwrap_or(0);
        self.pos += 1;
        b
    }
    pub fn pick(&mut self, n: usize) -> usize {
        if n <= 1 {
            0
        } else {
            self.byte() as usize % n
        }
    }
    pub fn exhausted(&self) -> bool {
        self.pos >= self.data.len()
    }
    pub fn of<'b>(&mut self, xs: &'b [&'b str]) -> &'b str {
        xs[self.pick(xs.len())]
    }
}

const COLS_T1: &[&str] = &["id", "a", "b", "c", "d", "e"];
const COLS_T2: &[&str] = &["id", "t1_id", "s", "j", "dt"];
const TABLES: &[&str] = &["t1", "t2", "t1 x", "t2 y", "nope"];
const FUNCS1: &[&str] = &[
    "ABS", "ROUND", "UPPER", "LOWER", "LENGTH", "TRIM", "SIGN", "SQRT", "CEIL", "FLOOR", "EXP", "LN", "LOG10", "REVERSE", "ASCII", "BIN", "SPACE", "TYPEOF", "YEAR", "MONTH", "DAY", "LAST_DAY",
    "DAYNAME", "TO_DAYS", "FROM_DAYS", "SEC_TO_TIME", "TIME_TO_SEC", "HEX", "OCTET_LENGTH", "RADIANS", "DEGREES", "COT", "ACOS", "TAN", "LOG2", "ISNULL", "DATE", "TIME", "WEEK", "QUARTER",
    "COUNT", "SUM", "AVG", "MIN", "MAX",
];
const FUNCS2: &[&str] = &[
    "POW", "POWER", "MOD", "COALESCE", "NULLIF", "IFNULL", "LEFT", "RIGHT", "REPEAT", "CONCAT", "INSTR", "LOCATE", "ROUND", "TRUNCATE", "ATAN2", "LOG", "STRCMP", "DATEDIFF", "ADDDATE", "SUBDATE",
    "DATE_FORMAT", "FIND_IN_SET", "GREATEST", "LEAST", "MAKEDATE", "PERIOD_ADD", "PERIOD_DIFF", "FORMAT", "STR_TO_DATE", "TIMEDIFF", "ADDTIME", "STRFTIME", "DIV", "NVL",
];
const FUNCS3: &[&str] = &["SUBSTR", "SUBSTRING", "REPLACE", "LPAD", "RPAD", "IF", "IIF", "CONV", "MAKETIME", "CONCAT_WS", "SUBSTRING_INDEX", "INSERT", "MID", "FIELD"];
const FUNCS0: &[&str] = &["NOW", "PI", "RAND", "RANDOM", "CURRENT_DATE", "VERSION", "LAST_INSERT_ID", "CURDATE", "DATABASE", "CONNECTION_ID"];
const BINOPS: &[&str] = &["+", "-", "*", "/", "%", "=", "<>", "<", "<=", ">", ">=", "AND", "OR", "||", "LIKE", "->", "->>", "&", "|", "<<", ">>", "IS", "ILIKE"];
const TYPES: &[&str] = &[
    "INT", "BIGINT", "SMALLINT", "TEXT", "DOUBLE", "REAL", "BOOLEAN", "BLOB", "DATE", "TIMESTAMP", "VARCHAR(10)", "VARCHAR(0)", "CHAR(3)", "DECIMAL(10,2)", "JSONB", "UUID", "VECTOR(3)", "VECTOR(0)",
    "VECTOR(70000)", "SERIAL", "TIME", "INTERVAL", "VARCHAR(4294967296)", "DECIMAL(99,99)", "INT[]",
];
pub const EXTREMES: &[&str] = &[
    "9223372036854775807",
    "-9223372036854775808",
    "9223372036854775808",
    "-9223372036854775809",
    "18446744073709551615",
    "99999999999999999999999999999999999999",
    "1e308",
    "-1e308",
    "1e309",
    "1e-400",
    "0.0",
    "-0.0",
    "2147483647",
    "-2147483648",
    "4294967296",
    "0",
    "-1",
    "1.7976931348623157e308",
    "0x7fffffffffffffff",
    "1e",
    ".5",
    "5.",
    "00000000000000000001",
];

fn literal(c: &mut Choices, out: &mut String) {
    match c.pick(16) {
        0 => out.push('1'),
        1 => out.push_str("NULL"),
        2 => out.push_str(c.of(EXTREMES)),
        3 => out.push_str("'two'"),
        4 => out.push_str("''"),
        5 => out.push_str("TRUE"),
        6 => out.push_str(&format!("{}", c.byte() as i64 - 100)),
        7 => out.push_str(&format!("{}.{}", c.byte(), c.byte())),
        8 => {
            let n = [1usize, 100, 1000, 5000, 70000][c.pick(5)];
            out.push('\'');
            out.push_str(&"ab%_".repeat(n / 4 + 1));
            out.push('\'');
        }
        9 => out.push_str(["'2024-02-29'", "'0000-00-00'", "'9999-12-31'", "'2024-13-45'", "'-1-1-1'", "'12:34:56'", "'25:61:61'", "'2024-01-01 00:00:00'"][c.pick(8)]),
        10 => out.push_str(["?", "$1", "$2", "?1", ":name", "$0", "$99999999999"][c.pick(7)]),
        11 => out.push_str(["x'00ff'", "X'abc'", "x''", "'\\x00'", "'it''s'", "'\u{1F600}\u{0301}'", "'\u{0}'", "E'\\n'"][c.pick(8)]),
        12 => {
            // JSON text, nested
            let d = [1usize, 3, 20][c.pick(3)];
            out.push('\'');
            out.push_str(&"{\"a\":[".repeat(d));
            out.push_str("1e400");
            out.push_str(&"]}".repeat(d));
            out.push('\'');
        }
        13 => out.push_str("'[1, 2, 3]'"),
        14 => out.push_str("FALSE"),
        _ => out.push_str(&format!("{}", c.byte())),
    }
}

fn column(c: &mut Choices, out: &mut String) {
    match c.pick(6) {
        0 => out.push_str(c.of(COLS_T1)),
        1 => out.push_str(c.of(COLS_T2)),
        2 => {
            out.push_str(["t1.", "t2.", "x.", "y.", "nope."][c.pick(5)]);
            out.push_str(c.of(COLS_T1));
        }
        3 => out.push('*'),
        4 => out.push_str("nocol"),
        _ => out.push_str("a"),
    }
}

pub fn expr(c: &mut Choices, depth: usize, out: &mut String) {
    if depth == 0 || c.exhausted() {
        if c.pick(2) == 0 {
            column(c, out)
        } else {
            literal(c, out)
        }
        return;
    }
    match c.pick(22) {
        0 => column(c, out),
        1 => literal(c, out),
        2 | 3 => {
            expr(c, depth - 1, out);
            out.push(' ');
            out.push_str(c.of(BINOPS));
            out.push(' ');
            expr(c, depth - 1, out);
        }
        4 => {
            out.push_str(c.of(FUNCS1));
            out.push('(');
            if c.pick(8) == 0 {
                out.push_str("DISTINCT ");
            }
            expr(c, depth - 1, out);
            out.push(')');
        }
        5 => {
            out.push_str(c.of(FUNCS2));
            out.push('(');
            expr(c, depth - 1, out);
            out.push_str(", ");
            expr(c, depth - 1, out);
            out.push(')');
        }
        6 => {
            out.push_str(c.of(FUNCS3));
            out.push('(');
            expr(c, depth - 1, out);
            out.push_str(", ");
            expr(c, depth - 1, out);
            out.push_str(", ");
            expr(c, depth - 1, out);
            out.push(')');
        }
        7 => {
            out.push_str(c.of(FUNCS0));
            out.push_str("()");
        }
        8 => {
            out.push_str("CASE WHEN ");
            expr(c, depth - 1, out);
            out.push_str(" THEN ");
            expr(c, depth - 1, out);
            if c.pick(2) == 0 {
                out.push_str(" ELSE ");
                expr(c, depth - 1, out);
            }
            out.push_str(" END");
        }
        9 => {
            out.push_str("CAST(");
            expr(c, depth - 1, out);
            out.push_str(" AS ");
            out.push_str(c.of(TYPES));
            out.push(')');
        }
        10 => {
            expr(c, depth - 1, out);
            out.push_str(if c.pick(2) == 0 { " IN (" } else { " NOT IN (" });
            let n = c.pick(4);
            for i in 0..n {
                if i > 0 {
                    out.push_str(", ");
                }
                expr(c, depth - 1, out);
            }
            out.push(')');
        }
        11 => {
            expr(c, depth - 1, out);
            out.push_str(" BETWEEN ");
            expr(c, depth - 1, out);
            out.push_str(" AND ");
            expr(c, depth - 1, out);
        }
        12 => {
            expr(c, depth - 1, out);
            out.push_str([" IS NULL", " IS NOT NULL", " IS TRUE", " IS NOT DISTINCT FROM NULL"][c.pick(4)]);
        }
        13 => {
            out.push_str(["-", "NOT ", "+", "~", "- -"][c.pick(5)]);
            expr(c, depth - 1, out);
        }
        14 => {
            out.push('(');
            select(c, depth - 1, out);
            out.push(')');
        }
        15 => {
            out.push_str(if c.pick(2) == 0 { "EXISTS (" } else { "NOT EXISTS (" });
            select(c, depth - 1, out);
            out.push(')');
        }
        16 => {
            expr(c, depth - 1, out);
            out.push_str([" IN (", " = ANY (", " > ALL ("][c.pick(3)]);
            select(c, depth - 1, out);
            out.push(')');
        }
        17 => {
            out.push('(');
            expr(c, depth - 1, out);
            out.push(')');
        }
        18 => {
            out.push_str(["ROW_NUMBER()", "RANK()", "SUM(a)", "COUNT(*)", "LAG(a)"][c.pick(5)]);
            out.push_str(" OVER (");
            if c.pick(2) == 0 {
                out.push_str("PARTITION BY ");
                expr(c, depth - 1, out);
            }
            if c.pick(2) == 0 {
                out.push_str(" ORDER BY ");
                expr(c, depth - 1, out);
            }
            out.push(')');
        }
        _ => {
            // arithmetic at the edges of the integer / float range
            match c.pick(6) {
                0 => out.push_str("COUNT(*)"),
                1 => {
                    out.push_str(["e", "a", "id", "9223372036854775807", "-9223372036854775808", "c", "1e308"][c.pick(7)]);
                    out.push(' ');
                    out.push_str(["+", "-", "*", "/", "%"][c.pick(5)]);
                    out.push(' ');
                    out.push_str(["1", "-1", "e", "9223372036854775807", "-9223372036854775808", "0", "2", "1e308", "0.0"][c.pick(9)]);
                }
                2 => {
                    out.push_str(["ABS", "-", "SIGN", "ROUND", "CEIL", "FLOOR", "SQRT", "EXP"][c.pick(8)]);
                    out.push('(');
                    out.push_str(["e", "-9223372036854775808", "9223372036854775807", "1e308", "-1e308", "c"][c.pick(6)]);
                    out.push(')');
                }
                3 => {
                    out.push_str(["SUM", "AVG", "MAX", "MIN", "COUNT"][c.pick(5)]);
                    out.push_str(["(e)", "(e + e)", "(e * 2)", "(c * 1e308)", "(id)"][c.pick(5)]);
                }
                4 => {
                    out.push_str(["POW", "POWER", "MOD", "DIV", "ROUND", "TRUNCATE", "REPEAT", "LPAD", "SPACE", "LEFT", "SUBSTR", "FROM_DAYS", "MAKEDATE", "DATE_ADD", "ADDDATE"][c.pick(15)]);
                    out.push('(');
                    out.push_str(["e", "2", "'x'", "9223372036854775807", "-9223372036854775808", "10"][c.pick(6)]);
                    out.push_str(", ");
                    let big = if UNBOUNDED.with(|u| u.get()) { "2147483648" } else { "100000" };
                    out.push_str(["e", "0", "-1", "9223372036854775807", "-9223372036854775808", "64", "1e308", big][c.pick(8)]);
                    out.push(')');
                }
                _ => {
                    out.push_str("CAST(");
                    out.push_str(["1e308", "-1e308", "9223372036854775807", "'9223372036854775808'", "e", "'abc'", "'1e999'", "c"][c.pick(8)]);
                    out.push_str(" AS ");
                    out.push_str(["INT", "BIGINT", "SMALLINT", "DOUBLE", "REAL", "DATE", "BOOLEAN", "DECIMAL(10,2)"][c.pick(8)]);
                    out.push(')');
                }
            }
        }
    }
}

fn from_clause(c: &mut Choices, depth: usize, out: &mut String) {
    out.push_str(" FROM ");
    match c.pick(8) {
        0..=3 => out.push_str(c.of(TABLES)),
        4 => {
            out.push('(');
            select(c, depth.saturating_sub(1), out);
            out.push_str(") sub");
        }
        5 => out.push_str("t1, t2"),
        6 => out.push_str("t1 a1, t1 a2, t1 a3"),
        _ => out.push_str("t1"),
    }
    let joins = c.pick(3);
    for _ in 0..joins {
        out.push_str([" JOIN ", " LEFT JOIN ", " RIGHT JOIN ", " FULL OUTER JOIN ", " CROSS JOIN ", " INNER JOIN ", " NATURAL JOIN ", ", "][c.pick(8)]);
        out.push_str(c.of(TABLES));
        match c.pick(4) {
            0 => {}
            1 => out.push_str(" USING (id)"),
            _ => {
                out.push_str(" ON ");
                expr(c, depth.min(2), out);
            }
        }
    }
}

pub fn select(c: &mut Choices, depth: usize, out: &mut String) {
    if c.pick(12) == 11 && depth > 0 {
        out.push_str(["WITH q AS (", "WITH RECURSIVE q AS (", "WITH q(n) AS ("][c.pick(3)]);
        select(c, depth - 1, out);
        out.push_str(") ");
    }
    out.push_str("SELECT ");
    match c.pick(6) {
        0 => out.push_str("DISTINCT "),
        1 => out.push_str("ALL "),
        _ => {}
    }
    let n = 1 + c.pick(3);
    for i in 0..n {
        if i > 0 {
            out.push_str(", ");
        }
        expr(c, depth, out);
        if c.pick(5) == 0 {
            out.push_str(" AS al");
        }
    }
    if c.pick(8) != 7 {
        from_clause(c, depth, out);
    }
    if c.pick(2) == 0 {
        out.push_str(" WHERE ");
        expr(c, depth, out);
    }
    if c.pick(4) == 0 {
        out.push_str(" GROUP BY ");
        expr(c, depth.min(1), out);
        if c.pick(2) == 0 {
            out.push_str(" HAVING ");
            expr(c, depth.min(2), out);
        }
    }
    if c.pick(3) == 0 {
        out.push_str(" ORDER BY ");
        expr(c, depth.min(1), out);
        out.push_str(["", " ASC", " DESC", " NULLS FIRST", " DESC NULLS LAST"][c.pick(5)]);
    }
    if c.pick(3) == 0 {
        out.push_str(" LIMIT ");
        out.push_str(["1", "0", "-1", "9223372036854775807", "18446744073709551616", "NULL", "1.5", "?"][c.pick(8)]);
        if c.pick(2) == 0 {
            out.push_str(" OFFSET ");
            out.push_str(["0", "1", "-1", "9223372036854775807", "99999999999999999999"][c.pick(5)]);
        }
    }
    if c.pick(10) == 0 && depth > 0 {
        out.push_str([" UNION ", " UNION ALL ", " INTERSECT ", " EXCEPT "][c.pick(4)]);
        select(c, depth - 1, out);
    }
}

fn statement(c: &mut Choices, depth: usize, out: &mut String) {
    match c.pick(27) {
        0..=7 => select(c, depth, out),
        8 | 9 => {
            out.push_str(["INSERT INTO ", "INSERT OR REPLACE INTO ", "REPLACE INTO "][c.pick(3).min(if c.pick(4) == 0 { 2 } else { 0 })]);
            let t2 = c.pick(3) == 0;
            out.push_str(if t2 { "t2" } else { "t1" });
            if c.pick(3) == 0 {
                out.push_str(if t2 { " (id, s)" } else { " (id, a, b)" });
            }
            if c.pick(6) == 0 {
                out.push(' ');
                select(c, depth, out);
            } else {
                out.push_str(" VALUES ");
                let rows = 1 + c.pick(3);
                for r in 0..rows {
                    if r > 0 {
                        out.push_str(", ");
                    }
                    out.push('(');
                    let n = [6usize, 5, 3, 2, 7, 0][c.pick(6)];
                    for i in 0..n {
                        if i > 0 {
                            out.push_str(", ");
                        }
                        if i == 0 {
                            out.push_str(&format!("{}", 5 + c.byte() as u32));
                        } else {
                            expr(c, depth.min(2), out);
                        }
                    }
                    out.push(')');
                }
            }
            match c.pick(6) {
                0 => out.push_str(" RETURNING *"),
                1 => out.push_str(" ON CONFLICT DO NOTHING"),
                2 => out.push_str(" ON CONFLICT (id) DO UPDATE SET a = 1"),
                _ => {}
            }
        }
        10 | 11 => {
            out.push_str("UPDATE ");
            out.push_str(["t1", "t2", "nope"][c.pick(3)]);
            out.push_str(" SET ");
            let n = 1 + c.pick(2);
            for i in 0..n {
                if i > 0 {
                    out.push_str(", ");
                }
                out.push_str(c.of(COLS_T1));
                out.push_str(" = ");
                expr(c, depth, out);
            }
            if c.pick(3) != 0 {
                out.push_str(" WHERE ");
                expr(c, depth, out);
            }
            if c.pick(5) == 0 {
                out.push_str(" RETURNING id, a");
            }
        }
        12 => {
            out.push_str("DELETE FROM ");
            out.push_str(["t1", "t2", "nope"][c.pick(3)]);
            if c.pick(3) != 0 {
                out.push_str(" WHERE ");
                expr(c, depth, out);
            }
            if c.pick(5) == 0 {
                out.push_str(" RETURNING *");
            }
        }
        13 | 14 => {
            out.push_str(["CREATE TABLE ", "CREATE TABLE IF NOT EXISTS ", "CREATE TEMP TABLE "][c.pick(3)]);
            out.push_str(["n1", "t1", "s1.n2", "\"quoted name\"", "select"][c.pick(5)]);
            out.push_str(" (");
            let n = [1usize, 2, 3, 0, 40][c.pick(5)];
            for i in 0..n {
                if i > 0 {
                    out.push_str(", ");
                }
                out.push_str(&format!("c{} ", if c.pick(10) == 0 { 0 } else { i }));
                out.push_str(c.of(TYPES));
                out.push_str(
                    [
                        "",
                        " PRIMARY KEY",
                        " NOT NULL",
                        " UNIQUE",
                        " DEFAULT 1",
                        " DEFAULT -0.5",
                        " DEFAULT 'x'",
                        " CHECK (c0 > 0)",
                        " REFERENCES t1(id)",
                        " REFERENCES nope(x) ON DELETE CASCADE",
                        " AUTO_INCREMENT",
                        " DEFAULT (1 + 9223372036854775807)",
                        " PRIMARY KEY AUTO_INCREMENT",
                        " CHECK (c0 = (SELECT 1))",
                    ][c.pick(14)],
                );
            }
            if c.pick(4) == 0 {
                out.push_str([", PRIMARY KEY (c0, c1)", ", UNIQUE (c0)", ", FOREIGN KEY (c0) REFERENCES t1(id)", ", CHECK (c0 < c1)", ", PRIMARY KEY (nope)"][c.pick(5)]);
            }
            out.push(')');
        }
        15 => {
            out.push_str(["CREATE INDEX ", "CREATE UNIQUE INDEX ", "CREATE INDEX IF NOT EXISTS "][c.pick(3)]);
            out.push_str(["i1", "idx_t1_a", ""][c.pick(3)]);
            out.push_str(" ON ");
            out.push_str(["t1", "t2", "nope"][c.pick(3)]);
            out.push_str([" (a)", " (b, c)", " (nope)", " USING hnsw (b)", " (a DESC, b ASC)", " ()", " (j)", " (LOWER(b))", " USING btree (e)", " (a) WHERE a > 1"][c.pick(10)]);
        }
        16 => {
            out.push_str(
                [
                    "DROP TABLE t1",
                    "DROP TABLE IF EXISTS nope",
                    "DROP INDEX idx_t1_a",
                    "DROP INDEX IF EXISTS nope",
                    "DROP TABLE t1, t2",
                    "DROP SCHEMA s1",
                    "DROP TABLE t2 CASCADE",
                    "TRUNCATE TABLE t1",
                    "TRUNCATE t2",
                    "CREATE SCHEMA s1",
                    "CREATE SCHEMA IF NOT EXISTS s1",
                    "DROP SCHEMA IF EXISTS main CASCADE",
                ][c.pick(12)],
            );
        }
        17 => {
            out.push_str("ALTER TABLE ");
            out.push_str(["t1", "t2", "nope"][c.pick(3)]);
            out.push_str(
                [
                    " ADD COLUMN z INT",
                    " ADD COLUMN a INT",
                    " ADD z TEXT DEFAULT 'q' NOT NULL",
                    " DROP COLUMN a",
                    " DROP COLUMN id",
                    " DROP COLUMN nope",
                    " RENAME COLUMN a TO aa",
                    " RENAME COLUMN a TO b",
                    " RENAME TO t9",
                    " RENAME TO t2",
                    " ALTER COLUMN a TYPE TEXT",
                    " ADD CONSTRAINT ck CHECK (a > 0)",
                    " ADD PRIMARY KEY (a)",
                ][c.pick(13)],
            );
        }
        18 | 19 => {
            out.push_str("PRAGMA ");
            out.push_str(
                [
                    "wal",
                    "WAL",
                    "synchronous",
                    "wal_autoflush",
                    "join_memory_budget",
                    "memory_budget",
                    "memory_stats",
                    "persisted_memory_stats",
                    "wal_checkpoint",
                    "wal_checkpoint_stats",
                    "wal_checkpoint_threshold",
                    "wal_frame_count",
                    "wal_size",
                    "recover_wal",
                    "database_mode",
                    "cache_size",
                    "nope",
                    "table_info",
                ][c.pick(18)],
            );
            out.push_str(
                [
                    "",
                    " = ON",
                    " = OFF",
                    " ON",
                    " = FULL",
                    " = NORMAL",
                    " = 0",
                    " = -1",
                    " = 1",
                    " = 18446744073709551615",
                    " = 9223372036854775808",
                    " = 99999999999999999999999",
                    " = 'x'",
                    " = 1.5",
                    "(t1)",
                    " = NULL",
                    " = 4096",
                    " = 1e308",
                ][c.pick(18)],
            );
        }
        20 => {
            out.push_str(
                [
                    "BEGIN",
                    "COMMIT",
                    "ROLLBACK",
                    "BEGIN TRANSACTION",
                    "SAVEPOINT sp",
                    "RELEASE sp",
                    "RELEASE SAVEPOINT sp",
                    "ROLLBACK TO sp",
                    "ROLLBACK TO SAVEPOINT nope",
                    "BEGIN READ ONLY",
                    "BEGIN ISOLATION LEVEL SERIALIZABLE",
                    "START TRANSACTION",
                    "END",
                    "COMMIT WORK",
                ][c.pick(14)],
            );
        }
        21 => {
            out.push_str(["EXPLAIN ", "EXPLAIN ANALYZE ", "EXPLAIN VERBOSE ", "EXPLAIN (FORMAT JSON) "][c.pick(4)]);
            select(c, depth, out);
        }
        22 => {
            out.push_str(
                [
                    "SET foreign_keys = ON",
                    "SET foreign_keys = 2",
                    "SET nope = 1",
                    "SET cache_size = -99999999999999999999",
                    "SHOW TABLES",
                    "SHOW nope",
                    "RESET ALL",
                    "SET SESSION x = 'y'",
                    "SET TIME ZONE 'UTC'",
                    "CALL p(1)",
                    "MERGE INTO t1 USING t2 ON t1.id = t2.id WHEN MATCHED THEN DELETE",
                    "GRANT ALL ON t1 TO u",
                    "CREATE VIEW v AS SELECT * FROM t1",
                    "CREATE TYPE mood AS ENUM ('a', 'b')",
                    "CREATE SEQUENCE sq",
                    "CREATE TRIGGER tg BEFORE INSERT ON t1 FOR EACH ROW EXECUTE FUNCTION f()",
                    "CREATE FUNCTION f() RETURNS INT LANGUAGE sql AS 'SELECT 1'",
                    "ANALYZE t1",
                    "VACUUM",
                ][c.pick(19)],
            );
        }
        _ => {
            if c.pick(3) == 0 {
                out.push_str("SELECT ");
                expr(c, depth + 1, out);
            } else {
                // arithmetic / comparison over the edges of the value domains, every operator
                const OPERANDS: &[&str] = &[
                    "0", "0", "0", "1", "-1", "2", "a", "a", "e", "e", "c", "id", "b", "d", "NULL", "9223372036854775807", "-9223372036854775808", "1e308", "-1e308", "0.0", "'x'", "'12'", "TRUE", "e - 1", "(0 - e)", "dt", "j", "?",
                ];
                out.push_str(["SELECT ", "SELECT id FROM t1 WHERE ", "UPDATE t1 SET e = ", "SELECT SUM(", "SELECT * FROM t2 WHERE "][c.pick(5)]);
                let form = out.len();
                out.push_str(c.of(OPERANDS));
                out.push(' ');
                out.push_str(["+", "-", "*", "/", "%", "+", "-", "*", "/", "%", "=", "<", "||", "&", "<<", "AND", "LIKE"][c.pick(17)]);
                out.push(' ');
                out.push_str(c.of(OPERANDS));
                if c.pick(3) == 0 {
                    out.push(' ');
                    out.push_str(["+", "-", "*", "/", "%"][c.pick(5)]);
                    out.push(' ');
                    out.push_str(c.of(OPERANDS));
                }
                let head = &out[..form];
                if head.ends_with("SUM(") {
                    out.push_str(") FROM t1");
                } else if head.ends_with("SELECT ") {
                    out.push_str([" FROM t1", "", " FROM t2", " FROM t1 WHERE id = 1"][c.pick(4)]);
                } else if head.ends_with("e = ") {
                    out.push_str([" WHERE id = 1", "", " WHERE id = 2"][c.pick(3)]);
                } else {
                    out.push_str([" = 1", " IS NULL", "", " > 0"][c.pick(4)]);
                }
            }
        }
    }
}

/// Split into tokens that can be re-joined with single spaces without changing a valid
/// statement's meaning (string literals stay whole).
pub fn tokens(s: &str) -> Vec<String> {
    let mut out = Vec::new();
    let cs: Vec<char> = s.chars().collect();
    let mut i = 0;
    while i < cs.len() {
        let ch = cs[i];
        if ch.is_whitespace() {
            i += 1;
        } else if ch == '\'' {
            let st = i;
            i += 1;
            while i < cs.len() {
                if cs[i] == '\'' {
                    if i + 1 < cs.len() && cs[i + 1] == '\'' {
                        i += 2;
                        continue;
                    }
                    break;
                }
                i += 1;
            }
            i = (i + 1).min(cs.len());
            out.push(cs[st..i].iter().collect());
        } else if ch.is_alphanumeric() || ch == '_' || ch == '$' || ch == '?' || ch == '.' {
            let st = i;
            while i < cs.len() && (cs[i].is_alphanumeric() || cs[i] == '_' || cs[i] == '$' || cs[i] == '?' || cs[i] == '.') {
                i += 1;
            }
            out.push(cs[st..i].iter().collect());
        } else {
            let st = i;
            i += 1;
            // two-character operators
            if i < cs.len() && matches!((ch, cs[i]), ('<', '=') | ('>', '=') | ('<', '>') | ('|', '|') | ('-', '>') | ('<', '<') | ('>', '>') | ('!', '=')) {
                i += 1;
                if i < cs.len() && ch == '-' && cs[i] == '>' {
                    i += 1;
                }
            }
            out.push(cs[st..i].iter().collect());
        }
    }
    out
}

const KEYWORDS: &[&str] = &[
    "SELECT", "FROM", "WHERE", "(", ")", ",", "AND", "NOT", "NULL", "JOIN", "ON", "GROUP", "BY", "ORDER", "LIMIT", "VALUES", "AS", ";", "--", "/*", "*/", "'", "\"", "*", "=", "CASE", "END", "IN", "UNION", "SET",
    "INTO", "DISTINCT", "OVER", "WITH", "::", "[", "]", "{", "}", "\\", "\u{0}", "\u{FEFF}", "IS", "BETWEEN", "LIKE", "EXISTS", "CAST", "PRIMARY", "KEY", "DEFAULT",
];

fn mutate(c: &mut Choices, toks: &mut Vec<String>, deep: bool) -> &'static str {
    if toks.is_empty() {
        return "none";
    }
    let n = toks.len();
    match c.pick(12) {
        0 => {
            toks.remove(c.pick(n));
            "drop"
        }
        1 => {
            let i = c.pick(n);
            let t = toks[i].clone();
            toks.insert(i, t);
            "duplicate"
        }
        2 => {
            let i = c.pick(n);
            let j = c.pick(n);
            toks.swap(i, j);
            "swap"
        }
        3 => {
            toks.insert(c.pick(n + 1), if c.pick(2) == 0 { "(".into() } else { ")".into() });
            "unbalance"
        }
        4 => {
            // replace a numeric literal (or any token) with an extreme
            let start = c.pick(n);
            let i = (0..n).map(|k| (start + k) % n).find(|&k| toks[k].chars().next().map(|ch| ch.is_ascii_digit()).unwrap_or(false)).unwrap_or(start);
            toks[i] = c.of(EXTREMES).to_string();
            "extreme_literal"
        }
        5 => {
            let i = c.pick(n);
            toks[i] = c.of(KEYWORDS).to_string();
            "replace_with_keyword"
        }
        6 => {
            toks.insert(c.pick(n + 1), c.of(KEYWORDS).to_string());
            "insert_keyword"
        }
        7 => {
            // nest one token in parentheses, to a bounded depth
            let i = c.pick(n);
            let d = if deep { [2usize, 10, 60, 400, 3000][c.pick(5)] } else { [2usize, 5, 10, 20, 40][c.pick(5)] };
            toks[i] = format!("{}{}{}", "(".repeat(d), toks[i], ")".repeat(d));
            if d > 40 {
                "deep_parens"
            } else {
                "parens"
            }
        }
        8 => {
            // prefix-operator chain
            let i = c.pick(n);
            let d = if deep { [2usize, 30, 300, 5000][c.pick(4)] } else { [2usize, 5, 15, 30][c.pick(4)] };
            toks[i] = format!("{}{}", ["- ", "NOT ", "~ "][c.pick(3)].repeat(d), toks[i]);
            if d > 40 {
                "deep_unary"
            } else {
                "unary_chain"
            }
        }
        9 => {
            // huge string
            let i = c.pick(n);
            let len = [1000usize, 20000, 70000, 300000][c.pick(4)];
            toks[i] = format!("'{}'", "z".repeat(len));
            "huge_string"
        }
        10 => {
            // repeat a token run (long lists / long AND chains)
            let i = c.pick(n);
            let j = (i + 1 + c.pick(4)).min(n);
            let run: Vec<String> = toks[i..j].to_vec();
            let times = if deep { [2usize, 50, 1000][c.pick(3)] } else { [2usize, 10, 40][c.pick(3)] };
            for _ in 0..times {
                for (k, t) in run.iter().enumerate() {
                    toks.insert(j + k, t.clone());
                }
            }
            "repeat_run"
        }
        _ => {
            // nested JSON literal
            let i = c.pick(n);
            let d = if deep { [5usize, 100, 2000, 20000][c.pick(4)] } else { [2usize, 5, 20, 50][c.pick(4)] };
            toks[i] = format!("'{}1{}'", "[".repeat(d), "]".repeat(d));
            if d > 50 {
                "deep_json"
            } else {
                "nested_json"
            }
        }
    }
}

/// Choice stream -> 1..4 statements. Byte 0 = number of statements and of mutations.
pub fn gen_sql(input: &[u8], deep_nesting: bool) -> Vec<String> {
    UNBOUNDED.with(|u| u.set(deep_nesting));
    let mut c = Choices::new(input);
    let head = c.byte();
    let nstmts = 1 + (head & 3) as usize;
    let nmut = ((head >> 2) & 7) as usize; // 0..7, zero for the all-zero stream
    let depth = 1 + ((head >> 5) & 3) as usize;
    let mut stmts = Vec::new();
    for _ in 0..nstmts {
        let mut s = String::new();
        statement(&mut c, depth, &mut s);
        stmts.push(s);
    }
    if nmut > 0 {
        let which = c.pick(stmts.len());
        let mut toks = tokens(&stmts[which]);
        for _ in 0..nmut.min(4) {
            mutate(&mut c, &mut toks, deep_nesting);
        }
        stmts[which] = toks.join(" ");
    }
    stmts
}

/// Nesting feature of a text, used to tell stack-overflow aborts apart.
pub fn nesting_feature(text: &str) -> &'static str {
    let mut paren = 0i64;
    let mut max_paren = 0i64;
    let mut brack = 0i64;
    let mut max_brack = 0i64;
    let mut in_str = false;
    let mut unary = 0i64;
    let mut max_unary = 0i64;
    for t in text.chars() {
        if t == '\'' {
            in_str = !in_str;
        }
        if in_str {
            if t == '[' || t == '{' {
                brack += 1;
                max_brack = max_brack.max(brack);
            } else if t == ']' || t == '}' {
                brack -= 1;
            }
        } else {
            if t == '(' {
                paren += 1;
                max_paren = max_paren.max(paren);
            } else if t == ')' {
                paren -= 1;
            }
            if t == '-' || t == '~' || t == 'T' || t == 'N' || t == 'O' || t == ' ' {
                if t != ' ' {
                    unary += 1;
                    max_unary = max_unary.max(unary);
                }
            } else {
                unary = 0;
            }
        }
    }
    if max_brack >= 100 && max_brack >= max_paren {
        "json_nesting"
    } else if max_paren >= 100 {
        "paren_nesting"
    } else if max_unary >= 100 {
        "unary_chain"
    } else if text.len() > 50_000 {
        "long_statement"
    } else {
        "other"
    }
}

// --------------------------------------------------------------------------------------
// API sequences
// --------------------------------------------------------------------------------------

const API_SQL: &[&str] = &[
    "SELECT * FROM t1",
    "INSERT INTO t1 VALUES (?, ?, ?, ?, ?, ?)",
    "INSERT INTO t1 (id, a) VALUES ($1, $2)",
    "UPDATE t1 SET a = ? WHERE id = ?",
    "DELETE FROM t1 WHERE id = ?",
    "SELECT * FROM t1 WHERE a = ? AND b = ?",
    "SELECT ?",
    "BEGIN",
    "COMMIT",
    "ROLLBACK",
    "SAVEPOINT s",
    "ROLLBACK TO s",
    "CREATE TABLE n (x INT PRIMARY KEY)",
    "DROP TABLE t2",
    "PRAGMA wal_checkpoint",
    "PRAGMA WAL = ON",
    "PRAGMA WAL = OFF",
    "PRAGMA synchronous = OFF",
    "PRAGMA wal_checkpoint_threshold = 0",
    "PRAGMA join_memory_budget = 0",
    "PRAGMA join_memory_budget = 18446744073709551615",
    "PRAGMA recover_wal",
    "SELECT COUNT(*) FROM t1 a, t1 b",
    "INSERT INTO t1 VALUES (100, 1, 'x', 1.0, TRUE, 1)",
    "TRUNCATE TABLE t1",
    "ALTER TABLE t1 ADD COLUMN z INT",
    // pragmas with odd values (several only act once WAL = ON was executed on the handle)
    "PRAGMA wal_checkpoint_threshold = 99999999999",
    "PRAGMA wal_checkpoint_threshold = ON",
    "PRAGMA wal_checkpoint_threshold = 4294967296",
    "PRAGMA synchronous = 7",
    "PRAGMA synchronous = MAYBE",
    "PRAGMA WAL = MAYBE",
    "PRAGMA wal_autoflush = 2",
    "PRAGMA join_memory_budget = ON",
    "PRAGMA join_memory_budget = 99999999999999999999999",
    "PRAGMA memory_budget = 1",
    "PRAGMA database_mode = x",
    "INSERT INTO t1 (id, a) VALUES (?, ?), (?, ?)",
    "SELECT * FROM t1 WHERE id = $2",
];

fn run_api(input: &[u8]) -> Report {
    let mut r = Report::default();
    let mut c = Choices::new(input);
    let f = fresh_db();
    let path = f.scratch.0.join("db");
    let mut handles: Vec<Option<Database>> = vec![f.db];
    let f = Fresh { db: None, scratch: f.scratch };
    let mut steps = 0;
    while !c.exhausted() && steps < 24 {
        steps += 1;
        let op = c.pick(16);
        let hi = c.pick(handles.len());
        trace(format!("op {} on handle {}{}", op, hi, if handles[hi].is_none() { " (dropped)" } else { "" }));
        match op {
            0 => {
                // clone a handle (also a closed one)
                if handles.len() < 4 {
                    if let Some(h) = &handles[hi] {
                        let cl = h.clone();
                        handles.push(Some(cl));
                        r.class("api_clone");
                    }
                }
            }
            1 | 2 | 3 => {
                if let Some(h) = &handles[hi] {
                    let sql = c.of(API_SQL);
                    trace(format!("execute({:?})", sql));
                    let ok = touch(&h.execute(sql));
                    r.deep = true;
                    if ok {
                        r.accepted = true;
                    }
                    if h.is_closed() {
                        r.class("api_use_after_close");
                    }
                }
            }
            4 | 5 => {
                // prepare + bind with any arity
                if let Some(h) = &handles[hi] {
                    let sql = c.of(API_SQL);
                    if let Ok(ps) = h.prepare(sql) {
                        r.deep = true;
                        let want = ps.param_count() as usize;
                        let n = c.pick(8);
                        trace(format!("prepare({:?}) wants {} parameters, binding {}", sql, want, n.max(1)));
                        let mut b = ps.bind(param_pool(c.byte()));
                        for _ in 1..n.max(1) {
                            b = b.bind(param_pool(c.byte()));
                        }
                        let res = if c.pick(2) == 0 { b.execute(h).map(|_| ()) } else { b.query(h).map(|_| ()) };
                        let _ = res.map_err(|e| e.to_string());
                        r.class(if n.max(1) == want { "api_bind_right_arity" } else { "api_bind_wrong_arity" });
                        let _ = (ps.sql().len(), ps.cached_insert_plan().is_some(), ps.cached_update_plan().is_some());
                    }
                }
            }
            6 => {
                if let Some(h) = &handles[hi] {
                    let sql = c.of(API_SQL);
                    let n = c.pick(8);
                    let params: Vec<OwnedValue> = (0..n).map(|_| param_pool(c.byte())).collect();
                    trace(format!("execute_with_params({:?}, {} params)", sql, n));
                    let _ = touch(&h.execute_with_params(sql, &params));
                    r.deep = true;
                }
            }
            7 => {
                if let Some(h) = &handles[hi] {
                    let _ = h.close().map(|_| ());
                    r.class("api_close");
                }
            }
            8 => {
                // drop without close
                if handles.len() > 1 || c.pick(2) == 0 {
                    handles[hi] = None;
                    r.class("api_drop_without_close");
                }
            }
            9 => {
                // open the same directory again (while other handles may be alive)
                if handles.len() < 4 {
                    match Database::open(&path) {
                        Ok(d) => {
                            handles.push(Some(d));
                            r.class("api_open_again_ok");
                        }
                        Err(_) => r.class("api_open_again_err"),
                    }
                }
            }
            10 => {
                if let Some(h) = &handles[hi] {
                    let _ = h.checkpoint().map(|_| ());
                    let _ = h.checkpoint_wal();
                    let _ = (h.is_closed(), h.is_degraded(), h.is_read_write(), h.wal_frame_count().ok(), h.wal_size_bytes().ok());
                }
            }
            11 => {
                if let Some(h) = &handles[hi] {
                    // batch API with ragged rows
                    let ncols = c.pick(8);
                    let rows: Vec<Vec<OwnedValue>> = (0..1 + c.pick(3)).map(|i| (0..ncols + (i % 2)).map(|k| if k == 0 { OwnedValue::Int(200 + c.byte() as i64) } else { param_pool(c.byte()) }).collect()).collect();
                    let table = ["t1", "t2", "nope", ""][c.pick(4)];
                    trace(format!("insert_batch/bulk_insert({:?}, {} rows of {}..{} values)", table, rows.len(), ncols, ncols + 1));
                    let _ = h.insert_batch(table, &rows).map_err(|e| e.to_string());
                    if c.pick(2) == 0 {
                        let _ = h.bulk_insert(table, rows).map_err(|e| e.to_string());
                    }
                    r.class("api_batch");
                    r.deep = true;
                }
            }
            12 => {
                if let Some(h) = &handles[hi] {
                    let (a, b) = (c.of(API_SQL), c.of(API_SQL));
                    trace(format!("query({:?}); query_with_columns({:?})", a, b));
                    let _ = h.query(a).map(|v| v.len());
                    let _ = h.query_with_columns(b).map(|v| v.1.len());
                }
            }
            13 => {
                match Database::open_or_create(&path) {
                    Ok(d) => {
                        if handles.len() < 4 {
                            handles.push(Some(d));
                        }
                    }
                    Err(_) => r.class("api_open_or_create_err"),
                }
                // and a directory that is not a database
                let _ = Database::open(f.scratch.0.join("missing")).map(|_| ());
                let _ = Database::open(&f.scratch.0).map(|_| ());
            }
            14 => {
                if let Some(h) = &handles[hi] {
                    let _ = (h.memory_stats(), h.join_memory_budget(), h.mode());
                    let _ = h.persist_memory_stats();
                    let _ = h.persist_wal_stats();
                }
            }
            _ => {
                if let Some(h) = &handles[hi] {
                    // prepared statement used on a different / closed handle
                    if let Ok(ps) = h.prepare("INSERT INTO t1 (id, a) VALUES (?, ?)") {
                        let other = c.pick(handles.len());
                        if let Some(o) = &handles[other] {
                            for k in 0..3 {
                                let _ = ps.bind(300 + k as i64 + c.byte() as i64).bind(1i64).execute(o).map(|_| ());
                            }
                            let _ = o.execute_with_cached_plan(&ps, &[OwnedValue::Int(999), OwnedValue::Int(1)]).map(|_| ());
                            let _ = o.execute_with_cached_plan(&ps, &[]).map(|_| ());
                            r.class("api_cached_plan");
                        }
                    }
                }
            }
        }
    }
    drop(handles);
    r
}

/// development aid: cost of one fresh database
pub fn bench_fresh(n: usize) -> (std::time::Duration, std::time::Duration) {
    let _ = fresh_db();
    let t0 = std::time::Instant::now();
    for _ in 0..n {
        let f = fresh_db();
        drop(f);
    }
    let a = t0.elapsed();
    let t0 = std::time::Instant::now();
    for _ in 0..n {
        let f = fresh_db();
        let db = f.db.as_ref().unwrap();
        let mut r = Report::default();
        run_one(db, "SELECT * FROM t1 WHERE a = 10", 1, &mut r);
    }
    (a, t0.elapsed())
}
