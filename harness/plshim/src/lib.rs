//! `parking_lot`-shaped `Mutex`, `RwLock` and `Condvar` built on shuttle's primitives, so that
//! TurDB source files that `use parking_lot::{...}` compile unchanged inside `vsched` (the
//! crate is renamed to `parking_lot` in vsched's Cargo.toml) and every lock operation becomes
//! a scheduling point owned by the harness.
//!
//! Modelling decisions (each one is stated in the evidence of the checks that rely on it):
//!
//! * No poisoning (parking_lot has none): a poisoned shuttle lock is simply entered.
//! * `Condvar::wait_for` / `wait_until` are **untimed** waits that never report a timeout.
//!   Shuttle does not virtualise the clock, and a wait that only ends because its timeout
//!   expired is exactly what the checked properties forbid ("no lost wakeup"): with an
//!   untimed wait such a schedule shows up as a shuttle deadlock instead of a 30 s stall.
//!   Timeouts in the code under test therefore only ever shorten waits; they can never be
//!   the reason a schedule is reported.
//! * `RwLock` is a plain readers/writer lock over `Mutex<state>` + `Condvar`, *without*
//!   parking_lot's writer preference (a waiting writer does not block new readers). The only
//!   behaviours this hides are deadlocks of recursive read locks, which callers obeying the
//!   documented lock order never take. It gives `force_unlock_read/write` their natural
//!   meaning (release a lock whose guard was `mem::forget`-ed).
//! * No spurious wakeups (parking_lot guarantees none; shuttle's `Condvar::wait` has none).

use std::cell::UnsafeCell;
use std::fmt;
use std::ops::{Deref, DerefMut};
use std::time::{Duration, Instant};

use shuttle::sync as ss;

// ---------------------------------------------------------------------------------------
// Mutex
// ---------------------------------------------------------------------------------------

pub struct Mutex<T: ?Sized> {
    inner: ss::Mutex<T>,
}

pub struct MutexGuard<'a, T: ?Sized> {
    // `None` only transiently inside `Condvar::wait*`
    guard: Option<ss::MutexGuard<'a, T>>,
}

impl<T> Mutex<T> {
    pub fn new(value: T) -> Self {
        Mutex { inner: ss::Mutex::new(value) }
    }

    pub fn into_inner(self) -> T {
        match self.inner.into_inner() {
            Ok(v) => v,
            Err(p) => p.into_inner(),
        }
    }
}

impl<T: ?Sized> Mutex<T> {
    pub fn lock(&self) -> MutexGuard<'_, T> {
        let g = match self.inner.lock() {
            Ok(g) => g,
            Err(p) => p.into_inner(),
        };
        MutexGuard { guard: Some(g) }
    }

    pub fn try_lock(&self) -> Option<MutexGuard<'_, T>> {
        match self.inner.try_lock() {
            Ok(g) => Some(MutexGuard { guard: Some(g) }),
            Err(ss::TryLockError::Poisoned(p)) => Some(MutexGuard { guard: Some(p.into_inner()) }),
            Err(ss::TryLockError::WouldBlock) => None,
        }
    }

    pub fn get_mut(&mut self) -> &mut T {
        match self.inner.get_mut() {
            Ok(v) => v,
            Err(p) => p.into_inner(),
        }
    }
}

impl<T: Default> Default for Mutex<T> {
    fn default() -> Self {
        Mutex::new(T::default())
    }
}

impl<T: ?Sized> fmt::Debug for Mutex<T> {
    fn fmt(&self, f: &mut fmt::Formatter<'_>) -> fmt::Result {
        // never touches the lock: formatting must not be a scheduling point
        f.write_str("Mutex { .. }")
    }
}

impl<T: ?Sized> Deref for MutexGuard<'_, T> {
    type Target = T;
    fn deref(&self) -> &T {
        self.guard.as_ref().expect("guard present")
    }
}

impl<T: ?Sized> DerefMut for MutexGuard<'_, T> {
    fn deref_mut(&mut self) -> &mut T {
        self.guard.as_mut().expect("guard present")
    }
}

impl<T: ?Sized + fmt::Debug> fmt::Debug for MutexGuard<'_, T> {
    fn fmt(&self, f: &mut fmt::Formatter<'_>) -> fmt::Result {
        fmt::Debug::fmt(&**self, f)
    }
}

// ---------------------------------------------------------------------------------------
// Condvar
// ---------------------------------------------------------------------------------------

#[derive(Debug, Clone, Copy, PartialEq, Eq)]
pub struct WaitTimeoutResult(bool);

impl WaitTimeoutResult {
    pub fn timed_out(&self) -> bool {
        self.0
    }
}

pub struct Condvar {
    inner: ss::Condvar,
}

impl Condvar {
    pub fn new() -> Self {
        Condvar { inner: ss::Condvar::new() }
    }

    pub fn wait<T>(&self, guard: &mut MutexGuard<'_, T>) {
        let g = guard.guard.take().expect("guard present");
        let g = match self.inner.wait(g) {
            Ok(g) => g,
            Err(p) => p.into_inner(),
        };
        guard.guard = Some(g);
    }

    /// Untimed (see the crate documentation); never reports a timeout.
    pub fn wait_for<T>(&self, guard: &mut MutexGuard<'_, T>, _timeout: Duration) -> WaitTimeoutResult {
        self.wait(guard);
        WaitTimeoutResult(false)
    }

    /// Untimed (see the crate documentation); never reports a timeout.
    pub fn wait_until<T>(&self, guard: &mut MutexGuard<'_, T>, _deadline: Instant) -> WaitTimeoutResult {
        self.wait(guard);
        WaitTimeoutResult(false)
    }

    pub fn notify_one(&self) -> bool {
        self.inner.notify_one();
        true
    }

    pub fn notify_all(&self) -> usize {
        self.inner.notify_all();
        0
    }
}

impl Default for Condvar {
    fn default() -> Self {
        Condvar::new()
    }
}

impl fmt::Debug for Condvar {
    fn fmt(&self, f: &mut fmt::Formatter<'_>) -> fmt::Result {
        f.write_str("Condvar { .. }")
    }
}

// ---------------------------------------------------------------------------------------
// RwLock
// ---------------------------------------------------------------------------------------

#[derive(Default)]
struct RwState {
    readers: usize,
    writer: bool,
}

pub struct RwLock<T: ?Sized> {
    state: ss::Mutex<RwState>,
    changed: ss::Condvar,
    data: UnsafeCell<T>,
}

// Same bounds as parking_lot / std.
unsafe impl<T: ?Sized + Send> Send for RwLock<T> {}
unsafe impl<T: ?Sized + Send + Sync> Sync for RwLock<T> {}

pub struct RwLockReadGuard<'a, T: ?Sized> {
    lock: &'a RwLock<T>,
}

pub struct RwLockWriteGuard<'a, T: ?Sized> {
    lock: &'a RwLock<T>,
}

unsafe impl<T: ?Sized + Sync> Sync for RwLockReadGuard<'_, T> {}
unsafe impl<T: ?Sized + Sync> Sync for RwLockWriteGuard<'_, T> {}

impl<T> RwLock<T> {
    pub fn new(value: T) -> Self {
        RwLock {
            state: ss::Mutex::new(RwState::default()),
            changed: ss::Condvar::new(),
            data: UnsafeCell::new(value),
        }
    }

    pub fn into_inner(self) -> T {
        self.data.into_inner()
    }
}

impl<T: ?Sized> RwLock<T> {
    fn st(&self) -> ss::MutexGuard<'_, RwState> {
        match self.state.lock() {
            Ok(g) => g,
            Err(p) => p.into_inner(),
        }
    }

    fn wait<'a>(&self, g: ss::MutexGuard<'a, RwState>) -> ss::MutexGuard<'a, RwState> {
        match self.changed.wait(g) {
            Ok(g) => g,
            Err(p) => p.into_inner(),
        }
    }

    pub fn read(&self) -> RwLockReadGuard<'_, T> {
        let mut st = self.st();
        while st.writer {
            st = self.wait(st);
        }
        st.readers += 1;
        drop(st);
        RwLockReadGuard { lock: self }
    }

    pub fn try_read(&self) -> Option<RwLockReadGuard<'_, T>> {
        let mut st = self.st();
        if st.writer {
            return None;
        }
        st.readers += 1;
        drop(st);
        Some(RwLockReadGuard { lock: self })
    }

    pub fn write(&self) -> RwLockWriteGuard<'_, T> {
        let mut st = self.st();
        while st.writer || st.readers > 0 {
            st = self.wait(st);
        }
        st.writer = true;
        drop(st);
        RwLockWriteGuard { lock: self }
    }

    pub fn try_write(&self) -> Option<RwLockWriteGuard<'_, T>> {
        let mut st = self.st();
        if st.writer || st.readers > 0 {
            return None;
        }
        st.writer = true;
        drop(st);
        Some(RwLockWriteGuard { lock: self })
    }

    pub fn get_mut(&mut self) -> &mut T {
        self.data.get_mut()
    }

    pub fn is_locked(&self) -> bool {
        let st = self.st();
        st.writer || st.readers > 0
    }

    /// Release a read lock whose guard was `mem::forget`-ed.
    ///
    /// # Safety
    /// The caller must own one read lock that no guard will release.
    pub unsafe fn force_unlock_read(&self) {
        if std::thread::panicking() {
            return; // a failing execution is being torn down; never re-enter the scheduler
        }
        let mut st = self.st();
        assert!(st.readers > 0, "force_unlock_read without a read lock held");
        st.readers -= 1;
        if st.readers == 0 {
            // notify *before* releasing the state mutex: the release below is then the last
            // scheduling point of an unlock, exactly as a real unlock is one atomic step
            // (nothing of the caller's critical section can be observed "half released")
            self.changed.notify_all();
        }
        drop(st);
    }

    /// Release a write lock whose guard was `mem::forget`-ed.
    ///
    /// # Safety
    /// The caller must own the write lock and no guard will release it.
    pub unsafe fn force_unlock_write(&self) {
        if std::thread::panicking() {
            return;
        }
        let mut st = self.st();
        assert!(st.writer, "force_unlock_write without the write lock held");
        st.writer = false;
        self.changed.notify_all();
        drop(st);
    }
}

impl<T: Default> Default for RwLock<T> {
    fn default() -> Self {
        RwLock::new(T::default())
    }
}

impl<T: ?Sized> fmt::Debug for RwLock<T> {
    fn fmt(&self, f: &mut fmt::Formatter<'_>) -> fmt::Result {
        f.write_str("RwLock { .. }")
    }
}

impl<T: ?Sized> Deref for RwLockReadGuard<'_, T> {
    type Target = T;
    fn deref(&self) -> &T {
        unsafe { &*self.lock.data.get() }
    }
}

impl<T: ?Sized> Drop for RwLockReadGuard<'_, T> {
    fn drop(&mut self) {
        unsafe { self.lock.force_unlock_read() }
    }
}

impl<T: ?Sized> Deref for RwLockWriteGuard<'_, T> {
    type Target = T;
    fn deref(&self) -> &T {
        unsafe { &*self.lock.data.get() }
    }
}

impl<T: ?Sized> DerefMut for RwLockWriteGuard<'_, T> {
    fn deref_mut(&mut self) -> &mut T {
        unsafe { &mut *self.lock.data.get() }
    }
}

impl<T: ?Sized> Drop for RwLockWriteGuard<'_, T> {
    fn drop(&mut self) {
        unsafe { self.lock.force_unlock_write() }
    }
}
