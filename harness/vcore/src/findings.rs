//! /verif/KNOWN_FINDINGS.txt — committed, never written at run time.
//!
//! ```text
//! finding: property=C14 sig=<signature> witness=findings/C14/x.json gate=<feature|-> :: <what fails>
//! fixed:   property=C30 <commit> witness=findings/C30/x.json :: <what failed>
//! ```
//! `sig` contains no whitespace; `*` in it matches any run of characters.

use std::path::Path;

#[derive(Clone, Debug)]
pub struct Finding {
    pub fixed: bool,
    pub property: String,
    pub sig: String,
    pub witness: Option<String>,
    pub gate: Option<String>,
    pub commit: Option<String>,
    pub text: String,
}

#[derive(Clone, Debug, Default)]
pub struct Findings {
    pub list: Vec<Finding>,
}

impl Findings {
    pub fn load_default() -> Findings {
        Findings::load(&crate::verif_root().join("KNOWN_FINDINGS.txt"))
    }

    pub fn load(path: &Path) -> Findings {
        let mut list = Vec::new();
        let Ok(text) = std::fs::read_to_string(path) else { return Findings { list } };
        for line in text.lines() {
            let line = line.trim();
            if line.is_empty() || line.starts_with('#') {
                continue;
            }
            let (fixed, rest) = if let Some(r) = line.strip_prefix("finding:") {
                (false, r)
            } else if let Some(r) = line.strip_prefix("fixed:") {
                (true, r)
            } else {
                continue;
            };
            let (head, text) = match rest.find(" :: ") {
                Some(i) => (&rest[..i], rest[i + 4..].trim().to_string()),
                None => (rest, String::new()),
            };
            let mut f = Finding {
                fixed,
                property: String::new(),
                sig: String::new(),
                witness: None,
                gate: None,
                commit: None,
                text,
            };
            for tok in head.split_whitespace() {
                if let Some(v) = tok.strip_prefix("property=") {
                    f.property = v.to_string();
                } else if let Some(v) = tok.strip_prefix("sig=") {
                    f.sig = v.to_string();
                } else if let Some(v) = tok.strip_prefix("witness=") {
                    f.witness = Some(v.to_string());
                } else if let Some(v) = tok.strip_prefix("gate=") {
                    if v != "-" {
                        f.gate = Some(v.to_string());
                    }
                } else if fixed && f.commit.is_none() {
                    f.commit = Some(tok.to_string());
                }
            }
            if !f.property.is_empty() {
                list.push(f);
            }
        }
        Findings { list }
    }

    pub fn for_property<'a>(&'a self, prop: &'a str) -> impl Iterator<Item = &'a Finding> + 'a {
        self.list.iter().filter(move |f| f.property == prop)
    }

    pub fn sig_matches(&self, f: &Finding, sig: &str) -> bool {
        if f.sig.is_empty() {
            return false;
        }
        glob(&f.sig, sig)
    }

    /// open finding of `prop` whose signature matches
    pub fn match_sig(&self, prop: &str, sig: &str) -> Option<&Finding> {
        self.list
            .iter()
            .find(|f| !f.fixed && f.property == prop && self.sig_matches(f, sig))
    }

    pub fn gate_closed(&self, prop: &str, gate: &str) -> bool {
        if dev_open_gates().iter().any(|g| g == gate) {
            return false;
        }
        if dev_gates().iter().any(|g| g == gate) {
            return true;
        }
        self.list
            .iter()
            .any(|f| !f.fixed && f.property == prop && f.gate.as_deref() == Some(gate))
    }

    pub fn closed_gates(&self, prop: &str) -> Vec<String> {
        let mut v: Vec<String> = self
            .list
            .iter()
            .filter(|f| !f.fixed && f.property == prop)
            .filter_map(|f| f.gate.clone())
            .chain(dev_gates())
            .filter(|g| !dev_open_gates().contains(g))
            .collect();
        v.sort();
        v.dedup();
        v
    }
}

/// `*` matches any (possibly empty) run of characters; everything else is literal.
pub fn glob(pat: &str, text: &str) -> bool {
    let parts: Vec<&str> = pat.split('*').collect();
    if parts.len() == 1 {
        return pat == text;
    }
    let mut pos = 0usize;
    for (i, part) in parts.iter().enumerate() {
        if i == 0 {
            if !text.starts_with(part) {
                return false;
            }
            pos = part.len();
        } else if i == parts.len() - 1 {
            return text.len() >= pos + part.len() && text[pos..].ends_with(part);
        } else {
            match text[pos..].find(part) {
                Some(j) => pos += j + part.len(),
                None => return false,
            }
        }
    }
    true
}

/// VERIF_DEV_GATES=a,b : development aid (closes extra gates while triaging); never set by
/// the registered commands.
fn dev_gates() -> Vec<String> {
    std::env::var("VERIF_DEV_GATES").map(|v| v.split(',').filter(|s| !s.is_empty()).map(|s| s.to_string()).collect()).unwrap_or_default()
}

/// VERIF_DEV_OPEN_GATES=a,b : development aid (re-opens gates to produce a witness).
fn dev_open_gates() -> Vec<String> {
    std::env::var("VERIF_DEV_OPEN_GATES").map(|v| v.split(',').filter(|s| !s.is_empty()).map(|s| s.to_string()).collect()).unwrap_or_default()
}
