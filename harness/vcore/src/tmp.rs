//! Scratch directories (under /dev/shm when present), removed on drop.

use std::path::{Path, PathBuf};
use std::sync::atomic::{AtomicU64, Ordering};

static COUNTER: AtomicU64 = AtomicU64::new(0);

pub struct TempDir {
    path: PathBuf,
}

pub fn base() -> PathBuf {
    if let Ok(b) = std::env::var("VERIF_TMP") {
        return PathBuf::from(b);
    }
    let shm = Path::new("/dev/shm");
    if shm.is_dir() {
        shm.join("verif-tmp")
    } else {
        std::env::temp_dir().join("verif-tmp")
    }
}

impl TempDir {
    pub fn new(tag: &str) -> TempDir {
        let n = COUNTER.fetch_add(1, Ordering::SeqCst);
        let path = base().join(format!("{}-{}-{}", tag, std::process::id(), n));
        let _ = std::fs::remove_dir_all(&path);
        std::fs::create_dir_all(&path).expect("create scratch dir");
        TempDir { path }
    }
    pub fn path(&self) -> &Path {
        &self.path
    }
    pub fn join(&self, p: &str) -> PathBuf {
        self.path.join(p)
    }
}

impl Drop for TempDir {
    fn drop(&mut self) {
        let _ = std::fs::remove_dir_all(&self.path);
    }
}

pub fn copy_dir(src: &Path, dst: &Path) -> std::io::Result<()> {
    std::fs::create_dir_all(dst)?;
    for e in std::fs::read_dir(src)? {
        let e = e?;
        let t = e.file_type()?;
        let to = dst.join(e.file_name());
        if t.is_dir() {
            copy_dir(&e.path(), &to)?;
        } else {
            std::fs::copy(e.path(), &to)?;
        }
    }
    Ok(())
}
