//! Shared plumbing for every check: seeds and tiers, the known-findings file, panic
//! capture, the evidence writer, replay files and the proptest driver.
//!
//! Exit protocol (see DESIGN.md §2): 0 = held (possibly with KNOWN-FINDING lines),
//! 1 = `VIOLATION property=<id> replay=<path>`, 2 = infrastructure problem / inconclusive.

use std::cell::RefCell;
use std::collections::{BTreeMap, BTreeSet, HashSet};
use std::hash::{Hash, Hasher};
use std::path::PathBuf;
use std::sync::atomic::{AtomicBool, AtomicU64, Ordering};
use std::sync::{Arc, Mutex};
use std::time::Instant;

use proptest::strategy::{Strategy, ValueTree};
use proptest::test_runner::{Config, RngAlgorithm, TestRng, TestRunner};
use serde::de::DeserializeOwned;
use serde::Serialize;
use serde_json::{json, Value as J};

pub mod findings;
pub mod tmp;
pub use findings::{Finding, Findings};

/// `/verif` and `/repo`; overridable (VERIF_ROOT / REPO_ROOT) only so that scratch copies
/// used while developing or for sensitivity runs can be checked with the same binaries.
pub fn verif_root() -> PathBuf {
    PathBuf::from(std::env::var("VERIF_ROOT").unwrap_or_else(|_| "/verif".into()))
}
pub fn repo_root() -> PathBuf {
    PathBuf::from(std::env::var("REPO_ROOT").unwrap_or_else(|_| "/repo".into()))
}

#[derive(Clone, Copy, Debug, PartialEq, Eq)]
pub enum Tier {
    Quick,
    Thorough,
}

impl Tier {
    pub fn name(self) -> &'static str {
        match self {
            Tier::Quick => "quick",
            Tier::Thorough => "thorough",
        }
    }
    /// pick a size by tier
    pub fn pick<T>(self, quick: T, thorough: T) -> T {
        match self {
            Tier::Quick => quick,
            Tier::Thorough => thorough,
        }
    }
}

pub fn seed_from_env() -> u64 {
    std::env::var("VERIF_SEED")
        .ok()
        .and_then(|s| s.trim().parse::<u64>().ok())
        .unwrap_or(1)
}

pub fn hash_of<T: Hash>(t: &T) -> u64 {
    // FNV-1a based hasher: stable across runs and platforms (DefaultHasher is too, with
    // fixed keys, but this makes the independence from std explicit).
    struct Fnv(u64);
    impl Hasher for Fnv {
        fn finish(&self) -> u64 {
            self.0
        }
        fn write(&mut self, bytes: &[u8]) {
            for b in bytes {
                self.0 ^= *b as u64;
                self.0 = self.0.wrapping_mul(0x100000001b3);
            }
        }
    }
    let mut h = Fnv(0xcbf29ce484222325);
    t.hash(&mut h);
    h.finish()
}

pub fn splitmix(x: u64) -> u64 {
    let mut z = x.wrapping_add(0x9E3779B97F4A7C15);
    z = (z ^ (z >> 30)).wrapping_mul(0xBF58476D1CE4E5B9);
    z = (z ^ (z >> 27)).wrapping_mul(0x94D049BB133111EB);
    z ^ (z >> 31)
}

pub fn rng_from_seed(seed: u64) -> TestRng {
    let mut bytes = [0u8; 32];
    let mut s = seed;
    for chunk in bytes.chunks_mut(8) {
        s = splitmix(s);
        chunk.copy_from_slice(&s.to_le_bytes());
    }
    TestRng::from_seed(RngAlgorithm::ChaCha, &bytes)
}

// ---------------------------------------------------------------------------------------
// Panic capture
// ---------------------------------------------------------------------------------------

#[derive(Clone, Debug)]
pub struct PanicInfo {
    pub file: String,
    pub line: u32,
    pub message: String,
}

thread_local! {
    static LAST_PANIC: RefCell<Option<PanicInfo>> = const { RefCell::new(None) };
    static CAPTURING: RefCell<bool> = const { RefCell::new(false) };
}

static HOOK_INSTALLED: AtomicBool = AtomicBool::new(false);

pub fn install_panic_hook() {
    if HOOK_INSTALLED.swap(true, Ordering::SeqCst) {
        return;
    }
    let default = std::panic::take_hook();
    std::panic::set_hook(Box::new(move |info| {
        let capturing = CAPTURING.with(|c| *c.borrow());
        let (file, line) = info
            .location()
            .map(|l| (l.file().to_string(), l.line()))
            .unwrap_or_else(|| ("?".into(), 0));
        let message = if let Some(s) = info.payload().downcast_ref::<&str>() {
            (*s).to_string()
        } else if let Some(s) = info.payload().downcast_ref::<String>() {
            s.clone()
        } else {
            "<non-string panic payload>".to_string()
        };
        if capturing {
            LAST_PANIC.with(|p| {
                // keep the first panic of a case (later ones are usually drop-time echoes)
                let mut p = p.borrow_mut();
                if p.is_none() {
                    *p = Some(PanicInfo { file, line, message });
                }
            });
        } else {
            default(info);
        }
    }));
}

/// Run `f`, converting a panic into `Err(PanicInfo)`.
pub fn catch<R>(f: impl FnOnce() -> R) -> Result<R, PanicInfo> {
    install_panic_hook();
    LAST_PANIC.with(|p| *p.borrow_mut() = None);
    let prev = CAPTURING.with(|c| std::mem::replace(&mut *c.borrow_mut(), true));
    let r = std::panic::catch_unwind(std::panic::AssertUnwindSafe(f));
    CAPTURING.with(|c| *c.borrow_mut() = prev);
    match r {
        Ok(v) => Ok(v),
        Err(_) => Err(LAST_PANIC.with(|p| p.borrow_mut().take()).unwrap_or(PanicInfo {
            file: "?".into(),
            line: 0,
            message: "panic (no info)".into(),
        })),
    }
}

fn strip_digits(s: &str) -> String {
    let mut out = String::new();
    let mut last_hash = false;
    for c in s.chars() {
        if c.is_ascii_digit() {
            if !last_hash {
                out.push('#');
                last_hash = true;
            }
        } else {
            out.push(c);
            last_hash = false;
        }
    }
    if out.len() > 120 {
        let mut cut = 120;
        while !out.is_char_boundary(cut) {
            cut -= 1;
        }
        out.truncate(cut);
    }
    out
}

/// Enclosing `fn` of a panic location, found by scanning the source file upward.
fn enclosing_fn(file: &str, line: u32) -> String {
    let candidates = [
        PathBuf::from(file),
        repo_root().join(file),
    ];
    for p in candidates {
        if let Ok(text) = std::fs::read_to_string(&p) {
            let lines: Vec<&str> = text.lines().collect();
            let mut i = (line as usize).min(lines.len());
            while i > 0 {
                i -= 1;
                let l = lines[i].trim_start();
                if let Some(pos) = l.find("fn ") {
                    let head = &l[..pos];
                    let ok_head = head
                        .split_whitespace()
                        .all(|w| matches!(w, "pub" | "async" | "const" | "unsafe" | "extern" | "\"C\"") || w.starts_with("pub("));
                    if ok_head {
                        let rest = &l[pos + 3..];
                        let name: String = rest
                            .chars()
                            .take_while(|c| c.is_alphanumeric() || *c == '_')
                            .collect();
                        if !name.is_empty() {
                            return name;
                        }
                    }
                }
            }
        }
    }
    "?".into()
}

pub fn short_file(file: &str) -> String {
    let rr = format!("{}/", repo_root().display());
    let f = file.strip_prefix(rr.as_str()).or_else(|| file.strip_prefix("/repo/")).unwrap_or(file);
    if let Some(i) = f.find("/src/") {
        // registry crates: keep crate dir name + path
        if f.contains(".cargo/registry") {
            let crate_dir = f[..i].rsplit('/').next().unwrap_or("");
            return format!("{}{}", crate_dir, &f[i..]);
        }
    }
    f.to_string()
}

pub fn panic_signature(p: &PanicInfo) -> String {
    let file = short_file(&p.file);
    let func = enclosing_fn(&p.file, p.line);
    format!("panic|{}|{}|{}", file, func, strip_digits(&p.message))
}

// ---------------------------------------------------------------------------------------
// Case outcome
// ---------------------------------------------------------------------------------------

#[derive(Clone, Debug)]
pub struct Failure {
    /// stable signature (see DESIGN.md §3)
    pub sig: String,
    /// human-readable description of what was expected and what was observed
    pub detail: String,
}

impl Failure {
    pub fn new(sig: impl Into<String>, detail: impl Into<String>) -> Self {
        let sig: String = sig.into();
        let sig: String = sig.chars().map(|c| if c.is_whitespace() { '_' } else { c }).collect();
        Failure { sig, detail: detail.into() }
    }
}

#[derive(Clone, Debug, Default)]
pub struct Outcome {
    /// Some(structural hash) when the case was non-trivial by the property's rule
    pub nontrivial: Option<u64>,
    /// class labels for the histogram
    pub classes: Vec<String>,
    pub failure: Option<Failure>,
}

impl Outcome {
    pub fn ok() -> Self {
        Outcome::default()
    }
    pub fn class(mut self, c: impl Into<String>) -> Self {
        self.classes.push(c.into());
        self
    }
    pub fn add_class(&mut self, c: impl Into<String>) {
        self.classes.push(c.into());
    }
    pub fn nontrivial(mut self, h: u64) -> Self {
        self.nontrivial = Some(h);
        self
    }
    pub fn fail(mut self, sig: impl Into<String>, detail: impl Into<String>) -> Self {
        if self.failure.is_none() {
            self.failure = Some(Failure::new(sig, detail));
        }
        self
    }
    pub fn set_fail(&mut self, sig: impl Into<String>, detail: impl Into<String>) {
        if self.failure.is_none() {
            self.failure = Some(Failure::new(sig, detail));
        }
    }
}

// ---------------------------------------------------------------------------------------
// Ctx: evidence accumulation + verdict
// ---------------------------------------------------------------------------------------

pub struct Violation {
    pub sig: String,
    pub detail: String,
    pub replay: PathBuf,
}

pub struct Ctx {
    pub prop: String,
    pub tier: Tier,
    pub seed: u64,
    pub level: &'static str,
    pub findings: Findings,
    start: Instant,
    inner: Mutex<CtxInner>,
    pub stop: AtomicBool,
    evals: AtomicU64,
    /// non-trivial cases that are distinct by construction (enumerations)
    nontrivial_enum: AtomicU64,
}

#[derive(Default)]
struct CtxInner {
    nontrivial: HashSet<u64>,
    samples: Vec<J>,
    classes: BTreeMap<String, u64>,
    known_hits: BTreeMap<String, u64>,
    /// the concrete signatures that matched listed findings (what a glob actually absorbed)
    known_sigs: BTreeMap<String, u64>,
    gated_out: BTreeMap<String, u64>,
    violations: Vec<Violation>,
    known_lines: BTreeSet<String>,
    notes: Vec<String>,
    rule: String,
    assumptions: Vec<String>,
    extra: BTreeMap<String, J>,
    exhaustive: Option<bool>,
    inconclusive: Option<String>,
    survey: BTreeMap<String, (u64, String)>,
}

/// VERIF_SURVEY=1: development aid — do not stop or shrink at unknown failures, list every
/// distinct signature with a count and one example, exit 3. Never used by registered commands.
pub fn survey_mode() -> bool {
    std::env::var("VERIF_SURVEY").map(|v| v == "1").unwrap_or(false)
}

impl Ctx {
    pub fn new(prop: &str, tier: Tier, level: &'static str) -> Arc<Ctx> {
        install_panic_hook();
        let findings = Findings::load_default();
        Arc::new(Ctx {
            prop: prop.to_string(),
            tier,
            seed: seed_from_env(),
            level,
            findings,
            start: Instant::now(),
            inner: Mutex::new(CtxInner::default()),
            stop: AtomicBool::new(false),
            evals: AtomicU64::new(0),
            nontrivial_enum: AtomicU64::new(0),
        })
    }

    pub fn set_rule(&self, rule: &str) {
        self.inner.lock().unwrap().rule = rule.to_string();
    }
    pub fn assume(&self, a: &str) {
        self.inner.lock().unwrap().assumptions.push(a.to_string());
    }
    pub fn note(&self, n: impl Into<String>) {
        self.inner.lock().unwrap().notes.push(n.into());
    }
    pub fn extra(&self, k: &str, v: J) {
        self.inner.lock().unwrap().extra.insert(k.to_string(), v);
    }
    pub fn set_exhaustive(&self, e: bool) {
        self.inner.lock().unwrap().exhaustive = Some(e);
    }
    pub fn inconclusive(&self, why: impl Into<String>) {
        self.inner.lock().unwrap().inconclusive = Some(why.into());
    }
    pub fn count_eval(&self, n: u64) {
        self.evals.fetch_add(n, Ordering::Relaxed);
    }
    pub fn evaluations(&self) -> u64 {
        self.evals.load(Ordering::Relaxed)
    }
    pub fn count_nontrivial(&self, h: u64) {
        self.inner.lock().unwrap().nontrivial.insert(h);
    }
    /// `n` further non-trivial cases that are pairwise distinct by construction (an
    /// enumeration visits each value once) and distinct from every hashed case.
    pub fn count_nontrivial_enumerated(&self, n: u64) {
        self.nontrivial_enum.fetch_add(n, Ordering::Relaxed);
    }
    pub fn class(&self, c: &str, n: u64) {
        *self.inner.lock().unwrap().classes.entry(c.to_string()).or_insert(0) += n;
    }
    pub fn gated_out(&self, gate: &str, n: u64) {
        *self.inner.lock().unwrap().gated_out.entry(gate.to_string()).or_insert(0) += n;
    }
    pub fn sample(&self, s: J) {
        let mut g = self.inner.lock().unwrap();
        if g.samples.len() < 5 {
            g.samples.push(s);
        }
    }
    pub fn want_sample(&self) -> bool {
        self.inner.lock().unwrap().samples.len() < 5
    }
    pub fn elapsed_s(&self) -> f64 {
        self.start.elapsed().as_secs_f64()
    }

    /// Is the generator feature `gate` closed (an open finding of this property names it)?
    pub fn gate_closed(&self, gate: &str) -> bool {
        self.findings.gate_closed(&self.prop, gate)
    }

    pub fn is_known(&self, sig: &str) -> bool {
        // development aid (tools/witness.sh): only failures whose signature contains the
        // wanted substring count, so the shrinker converges on a witness of that finding
        if let Ok(w) = std::env::var("VERIF_DEV_WANT_SIG") {
            if !w.is_empty() {
                return !sig.contains(&w);
            }
        }
        self.findings.match_sig(&self.prop, sig).is_some()
    }

    /// Record a failure found by the search. Returns true if it is a *new* violation
    /// (unknown signature), false if it matched a listed finding.
    pub fn record_failure(&self, f: &Failure, replay_case: &J) -> bool {
        let want = std::env::var("VERIF_DEV_WANT_SIG").map(|w| !w.is_empty()).unwrap_or(false);
        if want && self.is_known(&f.sig) {
            return false;
        }
        let matched = if want { None } else { self.findings.match_sig(&self.prop, &f.sig) };
        if let Some(fd) = matched {
            let mut g = self.inner.lock().unwrap();
            *g.known_hits.entry(fd.sig.clone()).or_insert(0) += 1;
            *g.known_sigs.entry(f.sig.clone()).or_insert(0) += 1;
            g.known_lines.insert(format!(
                "KNOWN-FINDING: property={} {} [sig={}]",
                self.prop, fd.text, fd.sig
            ));
            false
        } else {
            self.stop.store(true, Ordering::SeqCst);
            {
                // one report per signature and at most three per run (workers race to here)
                let g = self.inner.lock().unwrap();
                if g.violations.len() >= 3 || g.violations.iter().any(|v| v.sig == f.sig) {
                    return true;
                }
            }
            let path = self.write_replay(&f.sig, &f.detail, replay_case);
            let mut g = self.inner.lock().unwrap();
            g.violations.push(Violation { sig: f.sig.clone(), detail: f.detail.clone(), replay: path });
            self.stop.store(true, Ordering::SeqCst);
            true
        }
    }

    /// VERIF_SURVEY=1 bookkeeping for checks that run fixed lists of cases outside `drive`.
    pub fn survey_add(&self, sig: &str, detail: &str) {
        let mut g = self.inner.lock().unwrap();
        let e = g.survey.entry(sig.to_string()).or_insert((0, detail.to_string()));
        e.0 += 1;
    }

    /// Survey mode (development aid) for checks with their own search loop.
    pub fn survey_record(&self, f: &Failure) {
        let mut g = self.inner.lock().unwrap();
        let e = g.survey.entry(f.sig.clone()).or_insert((0, f.detail.clone()));
        e.0 += 1;
    }

    /// Witness of a listed finding still fails.
    pub fn known_line(&self, fd: &Finding) {
        let mut g = self.inner.lock().unwrap();
        *g.known_hits.entry(fd.sig.clone()).or_insert(0) += 1;
        g.known_lines.insert(format!(
            "KNOWN-FINDING: property={} {} [sig={}]",
            self.prop, fd.text, fd.sig
        ));
    }

    pub fn write_replay(&self, sig: &str, detail: &str, case: &J) -> PathBuf {
        let dir = verif_root().join("replays").join(&self.prop);
        let _ = std::fs::create_dir_all(&dir);
        let name = format!("{:016x}.json", hash_of(&(sig, case.to_string())));
        let path = dir.join(name);
        let doc = json!({
            "property": self.prop,
            "sig": sig,
            "detail": detail,
            "seed": self.seed,
            "tier": self.tier.name(),
            "case": case,
        });
        let _ = std::fs::write(&path, serde_json::to_string_pretty(&doc).unwrap());
        path
    }

    pub fn has_violation(&self) -> bool {
        !self.inner.lock().unwrap().violations.is_empty()
    }

    /// Write the evidence file, print verdict lines, return the process exit code.
    pub fn finish(&self) -> i32 {
        let g = self.inner.lock().unwrap();
        let evaluations = self.evaluations();
        let mut coverage = serde_json::Map::new();
        coverage.insert("evaluations".into(), json!(evaluations));
        let nontrivial = g.nontrivial.len() as u64 + self.nontrivial_enum.load(Ordering::Relaxed);
        coverage.insert("distinct_nontrivial".into(), json!(nontrivial));
        coverage.insert("rule".into(), json!(g.rule));
        coverage.insert("samples".into(), J::Array(g.samples.clone()));
        coverage.insert("classes".into(), json!(g.classes));
        coverage.insert("known_finding_hits".into(), json!(g.known_hits));
        coverage.insert("known_finding_signatures_seen".into(), json!(g.known_sigs));
        coverage.insert("cases_removed_by_gates".into(), json!(g.gated_out));
        coverage.insert(
            "closed_gates".into(),
            json!(self.findings.closed_gates(&self.prop)),
        );
        if let Some(e) = g.exhaustive {
            coverage.insert("exhaustive".into(), json!(e));
        }
        if !g.notes.is_empty() {
            coverage.insert("notes".into(), json!(g.notes));
        }
        for (k, v) in &g.extra {
            coverage.insert(k.clone(), v.clone());
        }
        if !g.violations.is_empty() {
            coverage.insert(
                "violations_detail".into(),
                J::Array(
                    g.violations
                        .iter()
                        .map(|v| json!({"sig": v.sig, "detail": v.detail, "replay": v.replay}))
                        .collect(),
                ),
            );
        }
        if let Some(w) = &g.inconclusive {
            coverage.insert("inconclusive".into(), json!(w));
        }
        let doc = json!({
            "property_id": self.prop,
            "tier": self.tier.name(),
            "seed": self.seed,
            "level": self.level,
            "coverage": J::Object(coverage),
            "assumptions": g.assumptions,
            "wall_s": (self.elapsed_s() * 1000.0).round() / 1000.0,
            "violations": g.violations.len(),
        });
        let dir = verif_root().join("evidence");
        let _ = std::fs::create_dir_all(&dir);
        let path = dir.join(format!("{}.json", self.prop));
        if let Err(e) = std::fs::write(&path, serde_json::to_string_pretty(&doc).unwrap()) {
            eprintln!("cannot write evidence {}: {}", path.display(), e);
            return 2;
        }
        for l in &g.known_lines {
            println!("{}", l);
        }
        println!(
            "[{}] tier={} seed={} evaluations={} distinct_nontrivial={} wall={:.1}s",
            self.prop,
            self.tier.name(),
            self.seed,
            evaluations,
            nontrivial,
            self.elapsed_s()
        );
        if !g.survey.is_empty() {
            println!("SURVEY: {} distinct unknown signatures", g.survey.len());
            for (sig, (n, d)) in &g.survey {
                println!("--- {} x{}\n{}", sig, n, d.chars().take(1500).collect::<String>());
            }
            return 3;
        }
        if !g.violations.is_empty() {
            for v in &g.violations {
                println!("  sig: {}", v.sig);
                println!("  detail: {}", v.detail.chars().take(2000).collect::<String>());
                println!("VIOLATION property={} replay={}", self.prop, v.replay.display());
            }
            return 1;
        }
        if let Some(w) = &g.inconclusive {
            println!("INCONCLUSIVE property={} {}", self.prop, w);
            return 2;
        }
        if nontrivial < 2 {
            println!("INCONCLUSIVE property={} fewer than 2 non-trivial cases", self.prop);
            return 2;
        }
        0
    }
}

// ---------------------------------------------------------------------------------------
// Generated search driver
// ---------------------------------------------------------------------------------------

pub trait Check: Sync {
    type Case: std::fmt::Debug + Clone + Serialize + DeserializeOwned + Send;
    /// Run one case against the real code and its oracle. Must not panic for *harness*
    /// reasons; panics from the code under test are caught by the driver.
    fn run(&self, case: &Self::Case) -> Outcome;
    /// Strict variant used for witness replay and `--replay`: every generator gate open.
    fn run_strict(&self, case: &Self::Case) -> Outcome {
        self.run(case)
    }
    /// Should a panic escaping from the code under test count as a violation of this
    /// property? (true for almost all: "returns what the model returns" excludes crashing.)
    fn panic_is_failure(&self) -> bool {
        true
    }
}

fn run_guarded<C: Check>(check: &C, case: &C::Case) -> Outcome {
    run_guarded_mode(check, case, false)
}

fn run_guarded_mode<C: Check>(check: &C, case: &C::Case, strict: bool) -> Outcome {
    match catch(|| if strict { check.run_strict(case) } else { check.run(case) }) {
        Ok(o) => o,
        Err(p) => {
            if check.panic_is_failure() {
                Outcome::ok().fail(
                    panic_signature(&p),
                    format!("panic at {}:{}: {}", p.file, p.line, p.message),
                )
            } else {
                Outcome::ok().class("panic_ignored")
            }
        }
    }
}

/// Replay the witnesses of this property's listed findings, then run `cases` generated
/// cases split over `workers` deterministic sub-streams.
pub fn drive<C, S, F>(ctx: &Arc<Ctx>, check: &C, make_strategy: F, cases: u64, workers: u64)
where
    C: Check,
    S: Strategy<Value = C::Case>,
    F: Fn() -> S + Sync,
{
    replay_witnesses(ctx, check);
    if ctx.has_violation() {
        return;
    }
    let workers = workers.max(1);
    let per = (cases + workers - 1) / workers;
    std::thread::scope(|sc| {
        for w in 0..workers {
            let ctx = ctx.clone();
            let make_strategy = &make_strategy;
            sc.spawn(move || {
                worker(&ctx, check, make_strategy(), per, w);
            });
        }
    });
}

fn worker<C, S>(ctx: &Arc<Ctx>, check: &C, strategy: S, cases: u64, w: u64)
where
    C: Check,
    S: Strategy<Value = C::Case>,
{
    let config = Config { failure_persistence: None, cases: 1, ..Config::default() };
    let rng = rng_from_seed(splitmix(ctx.seed ^ (w.wrapping_mul(0xA24BAED4963EE407))));
    let mut runner = TestRunner::new_with_rng(config, rng);
    for n in 0..cases {
        if ctx.stop.load(Ordering::SeqCst) {
            return;
        }
        if n % 128 == 127 {
            // long runs: hand freed heap pages back to the OS (16 worker arenas otherwise keep growing)
            extern "C" {
                fn malloc_trim(pad: usize) -> i32;
            }
            unsafe {
                malloc_trim(0);
            }
        }
        let mut tree = match strategy.new_tree(&mut runner) {
            Ok(t) => t,
            Err(_) => continue,
        };
        let case = tree.current();
        let out = run_guarded(check, &case);
        ctx.count_eval(1);
        for c in &out.classes {
            ctx.class(c, 1);
        }
        if let Some(h) = out.nontrivial {
            ctx.count_nontrivial(h);
            if ctx.want_sample() {
                ctx.sample(serde_json::to_value(&case).unwrap_or(J::Null));
            }
        }
        if let Some(f) = out.failure {
            if ctx.is_known(&f.sig) {
                ctx.record_failure(&f, &J::Null);
                continue;
            }
            if survey_mode() {
                let mut g = ctx.inner.lock().unwrap();
                let e = g.survey.entry(f.sig.clone()).or_insert((0, f.detail.clone()));
                e.0 += 1;
                continue;
            }
            // unknown signature: shrink, keeping "fails with an unknown signature"
            let shrink_start = Instant::now();
            let mut best_case = case.clone();
            let mut best_fail = f;
            let mut steps = 0u32;
            loop {
                if steps > 1500 || shrink_start.elapsed().as_secs() > 40 {
                    break;
                }
                if !tree.simplify() {
                    break;
                }
                steps += 1;
                loop {
                    let cand = tree.current();
                    let o = run_guarded(check, &cand);
                    let unknown_fail = o.failure.as_ref().filter(|f| !ctx.is_known(&f.sig)).cloned();
                    if let Some(f2) = unknown_fail {
                        best_case = cand;
                        best_fail = f2;
                        break; // try simplifying further
                    } else {
                        steps += 1;
                        if steps > 1500 || shrink_start.elapsed().as_secs() > 40 || !tree.complicate() {
                            break;
                        }
                    }
                }
            }
            let cj = serde_json::to_value(&best_case).unwrap_or(J::Null);
            ctx.record_failure(&best_fail, &cj);
            return;
        }
    }
}

/// Witness replay: every listed finding of the property names a replay file holding a
/// `case`; a witness that still fails prints its KNOWN-FINDING line, a `fixed:` witness
/// that fails again is a VIOLATION.
pub fn replay_witnesses<C: Check>(ctx: &Arc<Ctx>, check: &C) {
    let list: Vec<Finding> = ctx.findings.for_property(&ctx.prop).cloned().collect();
    for fd in list {
        let Some(w) = &fd.witness else { continue };
        let path = verif_root().join(w);
        let Ok(text) = std::fs::read_to_string(&path) else {
            ctx.note(format!("witness {} unreadable", w));
            continue;
        };
        let Ok(doc) = serde_json::from_str::<J>(&text) else {
            ctx.note(format!("witness {} is not JSON", w));
            continue;
        };
        let case_j = doc.get("case").cloned().unwrap_or(J::Null);
        let Ok(case) = serde_json::from_value::<C::Case>(case_j.clone()) else {
            ctx.note(format!("witness {} does not decode as a case of this check", w));
            continue;
        };
        let out = run_guarded_mode(check, &case, true);
        ctx.count_eval(1);
        ctx.class("witness_replay", 1);
        match out.failure {
            Some(f) => {
                if fd.fixed {
                    let f = Failure::new(
                        format!("regressed|{}", f.sig),
                        format!("witness of a fixed finding fails again: {}", f.detail),
                    );
                    let path = ctx.write_replay(&f.sig, &f.detail, &case_j);
                    let mut g = ctx.inner.lock().unwrap();
                    g.violations.push(Violation { sig: f.sig, detail: f.detail, replay: path });
                    ctx.stop.store(true, Ordering::SeqCst);
                } else if ctx.findings.sig_matches(&fd, &f.sig) {
                    ctx.known_line(&fd);
                } else if ctx.is_known(&f.sig) {
                    ctx.record_failure(&f, &case_j);
                } else {
                    ctx.record_failure(&f, &case_j);
                }
            }
            None => {
                if !fd.fixed {
                    ctx.note(format!("witness {} of open finding no longer fails", w));
                }
            }
        }
    }
}

/// `--replay <file>`: run one saved case in strict mode (known findings are failures too).
pub fn replay_file<C: Check>(prop: &str, check: &C, path: &str) -> i32 {
    install_panic_hook();
    let text = match std::fs::read_to_string(path) {
        Ok(t) => t,
        Err(e) => {
            eprintln!("cannot read {}: {}", path, e);
            return 2;
        }
    };
    let doc: J = match serde_json::from_str(&text) {
        Ok(d) => d,
        Err(e) => {
            eprintln!("bad replay file: {}", e);
            return 2;
        }
    };
    let case: C::Case = match serde_json::from_value(doc.get("case").cloned().unwrap_or(J::Null)) {
        Ok(c) => c,
        Err(e) => {
            eprintln!("replay case does not decode: {}", e);
            return 2;
        }
    };
    let out = run_guarded_mode(check, &case, true);
    match out.failure {
        Some(f) => {
            println!("  sig: {}", f.sig);
            println!("  detail: {}", f.detail);
            println!("VIOLATION property={} replay={}", prop, path);
            1
        }
        None => {
            println!("replay passes");
            0
        }
    }
}

/// Monotone index mapping (shrinks towards 0).
pub fn idx(sel: u16, len: usize) -> usize {
    if len == 0 {
        0
    } else {
        ((sel as usize) * len) >> 16
    }
}
