//! Re-reads the concurrency primitives of the TurDB tree under $REPO_ROOT (default /repo) on
//! every build and writes shuttle-instrumented copies to OUT_DIR:
//!
//!   * leading `//!` module-doc lines are blanked (an `include!`d file cannot carry inner
//!     docs) — blanked, not removed, so that line numbers equal those of the repo file;
//!   * the trailing `#[cfg(test)] mod tests { … }` is cut;
//!   * the mechanical textual mapping below redirects std's thread/atomic primitives to
//!     shuttle's. Nothing else is touched; `parking_lot` resolves to `plshim` via Cargo.
//!
//! It also extracts the group-commit caller protocol from transaction.rs (the body of
//! `execute_small_commit` from the `is_enabled()` test on) and exports a whitespace-free
//! fingerprint of it, so that C37 can refuse to run (exit 2) when the database's protocol
//! no longer is one the harness models.

use std::env;
use std::fs;
use std::path::{Path, PathBuf};

const MAPPINGS: &[(&str, &str)] = &[
    ("std::sync::atomic", "shuttle::sync::atomic"),
    ("std::sync::Arc", "shuttle::sync::Arc"),
    ("std::thread::yield_now", "shuttle::thread::yield_now"),
    ("std::thread::sleep", "shuttle::thread::sleep"),
    ("std::hint::spin_loop", "shuttle::hint::spin_loop"),
    ("core::hint::spin_loop", "shuttle::hint::spin_loop"),
];

fn transform(text: &str) -> String {
    let mut out = String::with_capacity(text.len());
    let mut in_header = true;
    let mut lines: Vec<&str> = text.lines().collect();
    // cut the unit-test tail: last `#[cfg(test)]` line that is followed by `mod tests`
    let mut cut = None;
    for i in 0..lines.len() {
        if lines[i].trim() == "#[cfg(test)]"
            && lines.get(i + 1).map(|l| l.trim_start().starts_with("mod tests")).unwrap_or(false)
        {
            cut = Some(i);
        }
    }
    if let Some(i) = cut {
        lines.truncate(i);
    }
    for l in lines {
        if in_header && (l.starts_with("//!") || l.trim().is_empty()) {
            out.push('\n');
            continue;
        }
        in_header = false;
        let mut s = l.to_string();
        for (from, to) in MAPPINGS {
            s = s.replace(from, to);
        }
        out.push_str(&s);
        out.push('\n');
    }
    out
}

fn protocol_fingerprint(text: &str) -> String {
    // from the first `group_commit_queue.is_enabled()` inside execute_small_commit up to the
    // start of the next `fn `
    let Some(f) = text.find("fn execute_small_commit") else { return "missing-fn".into() };
    let body = &text[f..];
    let Some(s) = body.find("group_commit_queue.is_enabled()") else { return "missing-protocol".into() };
    let rest = &body[s..];
    let end = rest.find("\n    fn ").unwrap_or(rest.len());
    rest[..end].chars().filter(|c| !c.is_whitespace()).collect()
}

fn main() {
    println!("cargo:rerun-if-env-changed=REPO_ROOT");
    let repo = PathBuf::from(env::var("REPO_ROOT").unwrap_or_else(|_| "/repo".into()));
    let out = PathBuf::from(env::var("OUT_DIR").unwrap());
    let files = [
        ("src/config/constants.rs", "constants.rs"),
        ("src/database/page_locks.rs", "page_locks.rs"),
        ("src/memory/budget.rs", "budget.rs"),
        ("src/database/group_commit.rs", "group_commit.rs"),
        ("src/storage/cache.rs", "cache.rs"),
    ];
    for (rel, name) in files {
        let p = repo.join(rel);
        println!("cargo:rerun-if-changed={}", p.display());
        let text = fs::read_to_string(&p).unwrap_or_else(|e| panic!("cannot read {}: {}", p.display(), e));
        write_if_changed(&out.join(name), &transform(&text));
    }
    let t = repo.join("src/database/transaction.rs");
    println!("cargo:rerun-if-changed={}", t.display());
    let text = fs::read_to_string(&t).unwrap_or_else(|e| panic!("cannot read {}: {}", t.display(), e));
    let fp = protocol_fingerprint(&text);
    write_if_changed(
        &out.join("protocol.rs"),
        &format!("pub const COMMIT_PROTOCOL_FINGERPRINT: &str = {:?};\n", fp),
    );
    // API variant of the group-commit queue (see c37.rs)
    println!("cargo:rustc-check-cfg=cfg(gc_submit_outcome)");
    let gc = fs::read_to_string(repo.join("src/database/group_commit.rs")).unwrap_or_default();
    if gc.contains("pub enum SubmitOutcome") {
        println!("cargo:rustc-cfg=gc_submit_outcome");
    }
    println!("cargo:rustc-env=VSCHED_REPO_ROOT={}", repo.display());
}

fn write_if_changed(path: &Path, content: &str) {
    if fs::read_to_string(path).map(|c| c == content).unwrap_or(false) {
        return;
    }
    fs::write(path, content).unwrap();
}
