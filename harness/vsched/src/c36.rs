//! C36 — page write locks are mutually exclusive (src/database/page_locks.rs).
//!
//! Program: 2–3 threads, each a list of *sections*. A section follows the lock hierarchy the
//! module documents (and `execute_small_commit` obeys): table intent locks first (ascending
//! table id), then page locks in ascending (table, page) order — `page_read`, `page_write`,
//! or a `page_write_multi` over a run of pages — hold, then drop everything in one of two
//! orders. Pages come from a five-page universe (two of them share a lock-table shard).
//!
//! Oracle (harness-owned, plain std atomics that are no scheduling points): per page a
//! writer and a reader occupancy counter, incremented right after an acquisition returns and
//! decremented right before the guard is dropped. writers ≤ 1 and writers·readers = 0 at
//! every acquisition and again after the hold; shuttle's deadlock report = an acquisition
//! that never succeeds; at quiescence the page and table lock tables are empty.

use std::sync::atomic::{AtomicI32, Ordering};
use std::sync::Arc;

use proptest::prelude::*;
use serde::{Deserialize, Serialize};
use vcore::Tier;

use crate::database::page_locks::{
    probe_page_entries, probe_page_shard, probe_table_entries, probe_write_guard_page, PageLockManager, PageReadGuard, PageWriteGuard,
    TableIntentExclusiveGuard, TableIntentSharedGuard,
};
use crate::engine::{self, Plan, Probe, SchedProp};

/// (table, page); index order == lock order. (1,31) and (2,0) fall into the same shard.
pub const PAGES: [(u32, u32); 5] = [(1, 0), (1, 1), (1, 31), (2, 0), (2, 1)];

#[derive(Clone, Copy, Debug, Serialize, Deserialize, Hash, PartialEq, Eq)]
pub enum Kind {
    Read,
    Write,
    /// member of a `page_write_multi` call (adjacent Multi entries form one call)
    Multi,
}

#[derive(Clone, Copy, Debug, Serialize, Deserialize, Hash, PartialEq, Eq)]
pub enum Intent {
    Shared,
    Exclusive,
}

#[derive(Clone, Debug, Serialize, Deserialize, Hash)]
pub struct Section {
    /// table id → intent lock taken before the page locks
    pub intents: Vec<(u32, Intent)>,
    /// ascending page indices with the way each is locked
    pub locks: Vec<(u8, Kind)>,
    /// yield once while holding everything
    pub hold: bool,
    /// drop guards newest-first (true) or oldest-first
    pub reverse_drop: bool,
}

#[derive(Clone, Debug, Serialize, Deserialize, Hash)]
pub struct Program {
    pub threads: Vec<Vec<Section>>,
}

struct Oracle {
    writers: [AtomicI32; PAGES.len()],
    readers: [AtomicI32; PAGES.len()],
}

enum Held<'a> {
    Read(u8, PageReadGuard<'a>),
    Write(u8, PageWriteGuard<'a>),
    IntentS(TableIntentSharedGuard<'a>),
    IntentX(TableIntentExclusiveGuard<'a>),
}

fn enter_write(o: &Oracle, probe: &Probe, p: u8, tid: usize) {
    let w = o.writers[p as usize].fetch_add(1, Ordering::SeqCst) + 1;
    let r = o.readers[p as usize].load(Ordering::SeqCst);
    if w != 1 {
        probe.fail(
            "C36|exclusion|two_writers",
            format!("thread {} was granted the write lock of page {:?} while {} other thread(s) hold it", tid, PAGES[p as usize], w - 1),
        );
    } else if r != 0 {
        probe.fail(
            "C36|exclusion|writer_with_reader",
            format!("thread {} was granted the write lock of page {:?} while {} reader(s) hold it", tid, PAGES[p as usize], r),
        );
    }
}

fn enter_read(o: &Oracle, probe: &Probe, p: u8, tid: usize) {
    o.readers[p as usize].fetch_add(1, Ordering::SeqCst);
    let w = o.writers[p as usize].load(Ordering::SeqCst);
    if w != 0 {
        probe.fail(
            "C36|exclusion|reader_with_writer",
            format!("thread {} was granted a read lock of page {:?} while {} writer(s) hold it", tid, PAGES[p as usize], w),
        );
    }
}

fn recheck(o: &Oracle, probe: &Probe, held: &[Held<'_>], tid: usize) {
    for h in held {
        match h {
            Held::Write(p, _) => {
                let w = o.writers[*p as usize].load(Ordering::SeqCst);
                let r = o.readers[*p as usize].load(Ordering::SeqCst);
                if w != 1 {
                    probe.fail(
                        "C36|exclusion|two_writers",
                        format!("while thread {} holds the write lock of page {:?}, {} writers are inside", tid, PAGES[*p as usize], w),
                    );
                } else if r != 0 {
                    probe.fail(
                        "C36|exclusion|writer_with_reader",
                        format!("while thread {} holds the write lock of page {:?}, {} reader(s) are inside", tid, PAGES[*p as usize], r),
                    );
                }
            }
            Held::Read(p, _) => {
                let w = o.writers[*p as usize].load(Ordering::SeqCst);
                if w != 0 {
                    probe.fail(
                        "C36|exclusion|reader_with_writer",
                        format!("while thread {} holds a read lock of page {:?}, {} writer(s) are inside", tid, PAGES[*p as usize], w),
                    );
                }
            }
            _ => {}
        }
    }
}

fn release(o: &Oracle, probe: &Probe, h: Held<'_>) {
    match &h {
        Held::Write(p, _) => {
            o.writers[*p as usize].fetch_sub(1, Ordering::SeqCst);
        }
        Held::Read(p, _) => {
            o.readers[*p as usize].fetch_sub(1, Ordering::SeqCst);
        }
        _ => {}
    }
    probe.call(move || drop(h));
    probe.holding(-1);
}

fn run_section(m: &PageLockManager, o: &Oracle, probe: &Probe, s: &Section, tid: usize) {
    let mut held: Vec<Held<'_>> = Vec::new();
    for &(t, i) in &s.intents {
        let g = match i {
            Intent::Shared => Held::IntentS(probe.call(|| m.table_intent_shared(t))),
            Intent::Exclusive => Held::IntentX(probe.call(|| m.table_intent_exclusive(t))),
        };
        probe.holding(1);
        held.push(g);
    }
    let mut i = 0;
    while i < s.locks.len() {
        let (p, k) = s.locks[i];
        let (t, n) = PAGES[p as usize];
        match k {
            Kind::Read => {
                let g = probe.call(|| m.page_read(t, n));
                enter_read(o, probe, p, tid);
                probe.holding(1);
                held.push(Held::Read(p, g));
                i += 1;
            }
            Kind::Write => {
                let g = probe.call(|| m.page_write(t, n));
                enter_write(o, probe, p, tid);
                probe.holding(1);
                held.push(Held::Write(p, g));
                i += 1;
            }
            Kind::Multi => {
                let mut j = i;
                while j < s.locks.len() && s.locks[j].1 == Kind::Multi {
                    j += 1;
                }
                // handed over in descending order: the call itself must sort
                let idx: Vec<u8> = s.locks[i..j].iter().rev().map(|l| l.0).collect();
                let tuples: Vec<(u32, u32)> = idx.iter().map(|&p| PAGES[p as usize]).collect();
                let guards = probe.call(|| m.page_write_multi(&tuples));
                if guards.len() != tuples.len() {
                    probe.fail(
                        "C36|api|multi_guard_count",
                        format!("page_write_multi({:?}) returned {} guards", tuples, guards.len()),
                    );
                }
                // map every guard to its page through the guard itself (no assumption on order)
                let mut want: Vec<u8> = idx.clone();
                for g in guards {
                    let pg = probe_write_guard_page(&g);
                    match want.iter().position(|&p| PAGES[p as usize] == pg) {
                        Some(k) => {
                            let p = want.remove(k);
                            enter_write(o, probe, p, tid);
                            probe.holding(1);
                            held.push(Held::Write(p, g));
                        }
                        None => {
                            probe.fail(
                                "C36|api|multi_guard_for_unrequested_page",
                                format!("page_write_multi({:?}) returned a guard for page {:?}", tuples, pg),
                            );
                            drop(g);
                        }
                    }
                }
                i = j;
            }
        }
    }
    if s.hold {
        shuttle::thread::yield_now();
    }
    recheck(o, probe, &held, tid);
    if s.reverse_drop {
        while let Some(h) = held.pop() {
            release(o, probe, h);
        }
    } else {
        for h in held.drain(..) {
            release(o, probe, h);
        }
    }
}

pub struct C36;

impl SchedProp for C36 {
    const ID: &'static str = "C36";
    type Program = Program;

    fn body(program: &Arc<Program>, probe: &Arc<Probe>) {
        let m = Arc::new(PageLockManager::new());
        let o = Arc::new(Oracle { writers: Default::default(), readers: Default::default() });
        let mut hs = Vec::new();
        for (ti, _) in program.threads.iter().enumerate() {
            let (m, o, probe, program) = (m.clone(), o.clone(), probe.clone(), program.clone());
            hs.push(shuttle::thread::spawn(move || {
                for s in &program.threads[ti] {
                    run_section(&m, &o, &probe, s, ti);
                }
            }));
        }
        for h in hs {
            let _ = h.join();
        }
        let pe = probe_page_entries(&m);
        if pe != 0 {
            probe.fail(
                "C36|cleanup|page_entries_left",
                format!("{} page-lock entries remain in the shard maps after every guard was dropped", pe),
            );
        }
        let te = probe_table_entries(&m);
        if te != 0 {
            probe.fail(
                "C36|cleanup|table_entries_left",
                format!("{} table-lock states remain after every intent guard was dropped", te),
            );
        }
    }

    fn classes(p: &Program) -> Vec<String> {
        let mut c = vec![format!("threads:{}", p.threads.len())];
        let mut per_page = [0u8; PAGES.len()];
        let mut writers_per_page = [0u8; PAGES.len()];
        let (mut multi, mut intent, mut read) = (false, false, false);
        for t in &p.threads {
            let mut seen = [false; PAGES.len()];
            let mut wseen = [false; PAGES.len()];
            for s in t {
                intent |= !s.intents.is_empty();
                for &(pg, k) in &s.locks {
                    seen[pg as usize] = true;
                    match k {
                        Kind::Read => read = true,
                        Kind::Write => wseen[pg as usize] = true,
                        Kind::Multi => {
                            multi = true;
                            wseen[pg as usize] = true
                        }
                    }
                }
            }
            for i in 0..PAGES.len() {
                per_page[i] += seen[i] as u8;
                writers_per_page[i] += wseen[i] as u8;
            }
        }
        if per_page.iter().any(|&n| n >= 2) {
            c.push("common_page".into());
        }
        if writers_per_page.iter().any(|&n| n >= 2) {
            c.push("two_writers_of_one_page".into());
        }
        if multi {
            c.push("write_multi".into());
        }
        if intent {
            c.push("table_intent".into());
        }
        if read {
            c.push("page_read".into());
        }
        if per_page[2] > 0 && per_page[3] > 0 {
            c.push("shard_collision".into());
        }
        c
    }
}

fn section_strategy() -> impl Strategy<Value = Section> {
    let kind = prop_oneof![3 => Just(Kind::Write), 2 => Just(Kind::Read), 2 => Just(Kind::Multi)];
    // page 0 is the hot page: most sections touch it
    let locks = (prop::bits::u8::masked(0b11111), prop::collection::vec(kind, PAGES.len()), 0u8..4).prop_map(
        |(mask, kinds, hot)| {
            let mask = if hot > 0 { mask | 1 } else { mask };
            (0..PAGES.len() as u8).filter(|i| mask & (1 << i) != 0).map(|i| (i, kinds[i as usize])).collect::<Vec<_>>()
        },
    );
    let intent = prop_oneof![Just(Intent::Shared), Just(Intent::Exclusive)];
    let intents = (0u8..4, intent.clone(), intent).prop_map(|(sel, a, b)| match sel {
        0 | 1 => vec![],
        2 => vec![(1u32, a)],
        _ => vec![(1u32, a), (2u32, b)],
    });
    (intents, locks, any::<bool>(), any::<bool>()).prop_map(|(intents, locks, hold, reverse_drop)| Section {
        intents,
        locks,
        hold,
        reverse_drop,
    })
}

fn ops_of(s: &Section) -> usize {
    let mut n = s.intents.len();
    let mut prev_multi = false;
    for &(_, k) in &s.locks {
        if k == Kind::Multi {
            if !prev_multi {
                n += 1;
            }
            prev_multi = true;
        } else {
            n += 1;
            prev_multi = false;
        }
    }
    n
}

/// 2–3 threads × 2–6 lock-manager operations (acquisitions; every one is later dropped).
pub fn strategy(max_threads: usize, max_ops: usize) -> BoxedStrategy<Program> {
    let thread = prop::collection::vec(section_strategy(), 1..=3).prop_map(move |mut secs| {
        // trim to the operation budget, drop empty sections
        let mut out: Vec<Section> = Vec::new();
        let mut used = 0;
        for mut s in secs.drain(..) {
            while ops_of(&s) + used > max_ops {
                if s.locks.pop().is_none() && s.intents.pop().is_none() {
                    break;
                }
            }
            if ops_of(&s) == 0 {
                continue;
            }
            used += ops_of(&s);
            out.push(s);
        }
        if out.is_empty() || used < 2 {
            out.push(Section { intents: vec![], locks: vec![(0, Kind::Write)], hold: true, reverse_drop: true });
            out.push(Section { intents: vec![], locks: vec![(0, Kind::Write)], hold: false, reverse_drop: true });
        }
        out
    });
    prop::collection::vec(thread, 2..=max_threads).prop_map(|threads| Program { threads }).boxed()
}

pub fn main(tier: Tier, replay: Option<String>) -> i32 {
    let plan = Plan::of(tier.pick(200, 800));
    let programs = tier.pick(2000, 20_000);
    engine::main_for::<C36, _, _>(
        tier,
        replay,
        plan,
        programs,
        "case = (program, schedule): a generated program of 2-3 threads x 2-6 lock-manager acquisitions (table intent S/X, page_read, page_write, page_write_multi; hierarchy-respecting order; 5 pages, 2 tables, one shard collision) executed under one shuttle schedule (PCT depth 2-5 or uniform random). Non-trivial = the schedule contains >= 1 context switch away from a thread that is inside a PageLockManager call (an acquisition or a guard drop); distinct by hash of (program, sequence of scheduling decisions).",
        &[
            "threads follow the documented lock hierarchy (table intent locks, then page locks in ascending (table,page) order; page_write_multi is given distinct pages), as execute_small_commit does; programs violating it could deadlock legitimately and are not generated",
            "bounds: 2-3 threads, 2-6 acquisitions per thread, every guard dropped before the thread ends",
        ],
        |_ctx| || strategy(3, 6),
    )
}
