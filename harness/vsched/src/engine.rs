//! Schedule-exploration engine shared by C35/C36/C37/C39.
//!
//! A *case* is a generated program (per-thread operation lists) plus, once it failed, the
//! shuttle schedule string of the failing interleaving. For one program the engine runs a
//! fixed plan of shuttle schedulers (PCT with depths 2..5 and uniform random), every one
//! seeded from `VERIF_SEED` and the program's structural hash, so a run is a pure function
//! of (seed, tree). Oracles are harness-owned state updated from inside the threads; a
//! violation is *recorded* in the `Probe` (no panic), a deadlock / step-bound / panic of the
//! code under test arrives as the panic shuttle raises and is classified here.

use std::collections::BTreeMap;
use std::fmt::Debug;
use std::hash::Hash;
use std::marker::PhantomData;
use std::sync::atomic::{AtomicBool, AtomicUsize, Ordering};
use std::sync::{Arc, Mutex};
use std::time::Instant;

use proptest::strategy::{Strategy, ValueTree};
use proptest::test_runner::{Config as PtConfig, TestRunner};
use serde::de::DeserializeOwned;
use serde::{Deserialize, Serialize};
use serde_json::{json, Value as J};
use shuttle::scheduler::{PctScheduler, RandomScheduler, Schedule, Scheduler, Task, TaskId};
use shuttle_engine::scheduler::serialization::{deserialize_schedule, serialize_schedule};
use shuttle_engine::scheduler::ScheduleStep;
use vcore::{Ctx, Failure, Outcome, PanicInfo, Tier};

pub const MAX_TASKS: usize = 8;
const RANDOM_STEP: u32 = u32::MAX;

// ---------------------------------------------------------------------------------------
// Probe: what the threads of one execution and the recording scheduler share
// ---------------------------------------------------------------------------------------

#[derive(Default)]
struct ProbeInner {
    seed: u64,
    steps: Vec<u32>,
    sw_in_call: u32,
    sw_holding: u32,
    exec_classes: Vec<&'static str>,
    failure: Option<Failure>,
    // accumulated over the executions of one runner
    executions: u64,
    started: bool,
    nontrivial: Vec<u64>,
    classes: BTreeMap<String, u64>,
}

pub struct Probe {
    inner: Mutex<ProbeInner>,
    failed: AtomicBool,
    in_call: [AtomicBool; MAX_TASKS],
    holding: [AtomicUsize; MAX_TASKS],
    program_hash: u64,
}

fn me() -> usize {
    usize::from(shuttle::current::me()).min(MAX_TASKS - 1)
}

impl Probe {
    fn new(program_hash: u64) -> Arc<Probe> {
        Arc::new(Probe {
            inner: Mutex::new(ProbeInner::default()),
            failed: AtomicBool::new(false),
            in_call: Default::default(),
            holding: Default::default(),
            program_hash,
        })
    }

    /// Record an oracle violation (first one wins). Never panics, never yields.
    pub fn fail(&self, sig: impl Into<String>, detail: impl Into<String>) {
        let mut g = self.inner.lock().unwrap();
        if g.failure.is_none() {
            g.failure = Some(Failure::new(sig, detail));
            self.failed.store(true, Ordering::SeqCst);
        }
    }

    pub fn failed(&self) -> bool {
        self.failed.load(Ordering::SeqCst)
    }

    /// Run one call into the code under test; context switches away from this thread while
    /// it is inside `f` are what makes a schedule non-trivial.
    pub fn call<R>(&self, f: impl FnOnce() -> R) -> R {
        let t = me();
        self.in_call[t].store(true, Ordering::SeqCst);
        let r = f();
        self.in_call[t].store(false, Ordering::SeqCst);
        r
    }

    /// The calling thread now holds `delta` more (or fewer) guards / pins / allocations
    /// obtained from the code under test.
    pub fn holding(&self, delta: isize) {
        let t = me();
        if delta >= 0 {
            self.holding[t].fetch_add(delta as usize, Ordering::SeqCst);
        } else {
            let d = (-delta) as usize;
            let cur = self.holding[t].load(Ordering::SeqCst);
            self.holding[t].store(cur.saturating_sub(d), Ordering::SeqCst);
        }
    }

    /// Per-execution class label (histogram over schedules).
    pub fn class(&self, c: &'static str) {
        let mut g = self.inner.lock().unwrap();
        if !g.exec_classes.contains(&c) {
            g.exec_classes.push(c);
        }
    }

    fn begin_execution(&self, seed: u64) {
        self.finish_execution();
        let mut g = self.inner.lock().unwrap();
        g.seed = seed;
        g.steps.clear();
        g.sw_in_call = 0;
        g.sw_holding = 0;
        g.exec_classes.clear();
        g.started = true;
        for a in &self.in_call {
            a.store(false, Ordering::SeqCst);
        }
        for a in &self.holding {
            a.store(0, Ordering::SeqCst);
        }
    }

    /// Close the books of the execution that just ended (idempotent).
    fn finish_execution(&self) {
        let mut g = self.inner.lock().unwrap();
        if !g.started {
            return;
        }
        g.started = false;
        g.executions += 1;
        let mut labels: Vec<&'static str> = std::mem::take(&mut g.exec_classes);
        if g.sw_in_call > 0 {
            labels.push("sched:switch_inside_call");
            let h = vcore::hash_of(&(self.program_hash, &g.steps));
            g.nontrivial.push(h);
        }
        if g.sw_holding > 0 {
            labels.push("sched:switch_while_holding");
        }
        if g.sw_in_call == 0 && g.sw_holding == 0 {
            labels.push("sched:no_switch_in_op");
        }
        for l in labels {
            *g.classes.entry(l.to_string()).or_insert(0) += 1;
        }
    }

    fn schedule_string(&self) -> String {
        let g = self.inner.lock().unwrap();
        let steps = g
            .steps
            .iter()
            .map(|&s| if s == RANDOM_STEP { ScheduleStep::Random } else { ScheduleStep::Task(TaskId::from(s as usize)) })
            .collect();
        serialize_schedule(&Schedule { seed: g.seed, steps }).replace('\n', "")
    }
}

/// Wraps any shuttle scheduler: records the decisions of the current execution (that *is*
/// the replayable schedule) and counts context switches that leave a thread which is inside
/// a call into the code under test / holds something obtained from it.
struct Recording {
    inner: Box<dyn Scheduler + Send>,
    probe: Arc<Probe>,
}

impl Scheduler for Recording {
    fn new_execution(&mut self) -> Option<Schedule> {
        if self.probe.failed() {
            self.probe.finish_execution();
            return None;
        }
        let s = self.inner.new_execution();
        match &s {
            Some(s) => self.probe.begin_execution(s.seed),
            None => self.probe.finish_execution(),
        }
        s
    }

    fn next_task(&mut self, runnable: &[&Task], current: Option<TaskId>, is_yielding: bool) -> Option<TaskId> {
        let next = self.inner.next_task(runnable, current, is_yielding)?;
        let mut g = self.probe.inner.lock().unwrap();
        g.steps.push(usize::from(next) as u32);
        if let Some(cur) = current {
            if cur != next {
                let c = usize::from(cur).min(MAX_TASKS - 1);
                if self.probe.in_call[c].load(Ordering::SeqCst) {
                    g.sw_in_call += 1;
                } else if self.probe.holding[c].load(Ordering::SeqCst) > 0 {
                    g.sw_holding += 1;
                }
            }
        }
        Some(next)
    }

    fn next_u64(&mut self) -> u64 {
        self.probe.inner.lock().unwrap().steps.push(RANDOM_STEP);
        self.inner.next_u64()
    }
}

// ---------------------------------------------------------------------------------------
// One program under a plan of schedulers
// ---------------------------------------------------------------------------------------

#[derive(Clone, Debug)]
pub struct Plan {
    /// (PCT depth, schedules)
    pub pct: Vec<(usize, usize)>,
    /// schedules under the uniform random scheduler
    pub random: usize,
}

impl Plan {
    pub fn total(&self) -> usize {
        self.pct.iter().map(|p| p.1).sum::<usize>() + self.random
    }
    /// `n` schedules split over PCT depth 2,3,4,5 and random as 20/30/20/10/20 %.
    pub fn of(n: usize) -> Plan {
        let p = |pc: usize| (n * pc / 100).max(2);
        Plan { pct: vec![(2, p(20)), (3, p(30)), (4, p(20)), (5, p(10))], random: p(20) }
    }
}

#[derive(Default)]
pub struct Explored {
    pub schedules: u64,
    pub nontrivial: Vec<u64>,
    pub classes: BTreeMap<String, u64>,
    pub failure: Option<(Failure, String)>,
}

fn shuttle_config() -> shuttle::Config {
    let mut c = shuttle::Config::new();
    c.stack_size = 0x40000;
    c.failure_persistence = shuttle::FailurePersistence::None;
    c.max_steps = shuttle::MaxSteps::FailAfter(100_000);
    c.silence_warnings = true;
    c.ungraceful_shutdown_config.immediately_return_on_panic = true;
    c
}

/// Map a panic raised out of a shuttle run to a failure signature.
fn classify_panic(prop: &str, p: &PanicInfo) -> Failure {
    let m = p.message.as_str();
    if m.starts_with("deadlock!") {
        return Failure::new(
            format!("{}|liveness|deadlock", prop),
            format!("shuttle reports a deadlock (every live thread is blocked): {}", m),
        );
    }
    if m.starts_with("exceeded max_steps bound") {
        return Failure::new(
            format!("{}|liveness|step_bound", prop),
            format!("an execution did not finish within the step bound (livelock / unbounded spin): {}", m),
        );
    }
    // panic inside an included TurDB source: report it against the repo file (line numbers
    // are preserved by build.rs)
    let out_dir = env!("OUT_DIR");
    if let Some(rest) = p.file.strip_prefix(out_dir) {
        let name = rest.trim_start_matches('/');
        let rel = match name {
            "page_locks.rs" => "src/database/page_locks.rs",
            "group_commit.rs" => "src/database/group_commit.rs",
            "budget.rs" => "src/memory/budget.rs",
            "cache.rs" => "src/storage/cache.rs",
            "constants.rs" => "src/config/constants.rs",
            other => other,
        };
        let q = PanicInfo {
            file: format!("{}/{}", vcore::repo_root().display(), rel),
            line: p.line,
            message: p.message.clone(),
        };
        return Failure::new(vcore::panic_signature(&q), format!("panic at {}:{}: {}", rel, p.line, p.message));
    }
    if p.file.contains("plshim") {
        return Failure::new(
            format!("{}|lock_api|{}", prop, m.chars().filter(|c| !c.is_ascii_digit()).collect::<String>()),
            format!("lock shim assertion at {}:{}: {}", p.file, p.line, m),
        );
    }
    Failure::new(vcore::panic_signature(p), format!("panic at {}:{}: {}", p.file, p.line, p.message))
}

type Job = Box<dyn FnOnce() -> Result<(), PanicInfo> + Send>;

struct Helper {
    tx: std::sync::mpsc::Sender<Job>,
    rx: std::sync::mpsc::Receiver<Result<(), PanicInfo>>,
}

thread_local! {
    static HELPER: std::cell::RefCell<Option<Helper>> = const { std::cell::RefCell::new(None) };
}

/// Run `job` (one shuttle runner) on this worker's helper OS thread.
///
/// When a task panics, shuttle abandons its coroutine in the middle of unwinding. That leaves
/// the OS thread's panic count raised for good (`std::thread::panicking()` stays true), and
/// every later execution on that thread ends with a spurious "task panicked". So a helper
/// that reported a panic is retired — parked forever, never exited (its thread-locals and the
/// abandoned coroutine stacks are not safe to tear down) — and the next job gets a new one.
fn on_helper(job: impl FnOnce() -> Result<(), PanicInfo> + Send + 'static) -> Result<(), PanicInfo> {
    HELPER.with(|h| {
        let mut h = h.borrow_mut();
        if h.is_none() {
            let (tx, jrx) = std::sync::mpsc::channel::<Job>();
            let (rtx, rx) = std::sync::mpsc::channel::<Result<(), PanicInfo>>();
            std::thread::Builder::new()
                .name("vsched-helper".into())
                .stack_size(4 << 20)
                .spawn(move || {
                    while let Ok(job) = jrx.recv() {
                        let r = job();
                        let poisoned = r.is_err();
                        if rtx.send(r).is_err() {
                            break;
                        }
                        if poisoned {
                            loop {
                                std::thread::park();
                            }
                        }
                    }
                })
                .expect("spawn helper thread");
            *h = Some(Helper { tx, rx });
        }
        let helper = h.as_ref().unwrap();
        let sent = helper.tx.send(Box::new(job)).is_ok();
        let r = if sent { helper.rx.recv().ok() } else { None };
        let r = r.unwrap_or_else(|| {
            Err(PanicInfo { file: "?".into(), line: 0, message: "helper thread died".into() })
        });
        if r.is_err() {
            *h = None; // retire it (the thread parks itself)
        }
        r
    })
}

fn run_one_scheduler<F>(prop: &str, program_hash: u64, sched: Box<dyn Scheduler + Send>, body: &F, out: &mut Explored)
where
    F: Fn(&Arc<Probe>) + Send + Sync + Clone + 'static,
{
    let probe = Probe::new(program_hash);
    let rec = Recording { inner: sched, probe: probe.clone() };
    let body = body.clone();
    let p2 = probe.clone();
    // Runs on the calling worker's helper thread (see `on_helper`).
    let r = on_helper(move || {
        vcore::catch(move || {
            let runner = shuttle::Runner::new(rec, shuttle_config());
            runner.run(move || body(&p2));
        })
    });
    let schedule = probe.schedule_string();
    probe.finish_execution();
    let mut g = probe.inner.lock().unwrap();
    out.schedules += g.executions;
    out.nontrivial.append(&mut g.nontrivial);
    for (k, v) in std::mem::take(&mut g.classes) {
        *out.classes.entry(k).or_insert(0) += v;
    }
    // a recorded oracle violation precedes (and usually explains) any later panic
    if let Some(f) = g.failure.take() {
        out.failure = Some((f, schedule));
    } else if let Err(p) = r {
        out.failure = Some((classify_panic(prop, &p), schedule));
    }
}

/// Explore `plan` schedules of one program; stops at the first failing schedule.
pub fn explore<F>(prop: &str, program_hash: u64, seed: u64, plan: &Plan, body: F) -> Explored
where
    F: Fn(&Arc<Probe>) + Send + Sync + Clone + 'static,
{
    let mut out = Explored::default();
    let mut k = 0u64;
    for &(depth, n) in &plan.pct {
        k += 1;
        if n == 0 {
            continue;
        }
        let s = PctScheduler::new_from_seed(vcore::splitmix(seed ^ k), depth, n);
        run_one_scheduler(prop, program_hash, Box::new(s), &body, &mut out);
        if out.failure.is_some() {
            return out;
        }
    }
    if plan.random > 0 {
        let s = RandomScheduler::new_from_seed(vcore::splitmix(seed ^ 0x5eed), plan.random);
        run_one_scheduler(prop, program_hash, Box::new(s), &body, &mut out);
    }
    out
}

/// Follows a recorded schedule decision by decision. When the recording no longer fits the
/// (changed) code — the recorded task is not runnable, or the recording ends before the
/// execution does — it does not stop (stopping would drop half-run threads, whose guards'
/// destructors call back into the scheduler) but finishes the execution with a fixed
/// policy: stay on the current task unless it yields or blocks, else the lowest task id.
/// An exact replay never reaches the fallback.
struct FollowScheduler {
    schedule: Schedule,
    pos: usize,
    diverged: bool,
    started: bool,
    rnd: u64,
}

impl Scheduler for FollowScheduler {
    fn new_execution(&mut self) -> Option<Schedule> {
        if self.started {
            return None;
        }
        self.started = true;
        Some(Schedule::new(self.schedule.seed))
    }

    fn next_task(&mut self, runnable: &[&Task], current: Option<TaskId>, is_yielding: bool) -> Option<TaskId> {
        if !self.diverged {
            while let Some(ScheduleStep::Random) = self.schedule.steps.get(self.pos) {
                self.pos += 1;
            }
            match self.schedule.steps.get(self.pos) {
                Some(ScheduleStep::Task(t)) if runnable.iter().any(|r| r.id() == *t) => {
                    self.pos += 1;
                    return Some(*t);
                }
                _ => self.diverged = true,
            }
        }
        if let Some(c) = current {
            if !is_yielding && runnable.iter().any(|r| r.id() == c) {
                return Some(c);
            }
            // yielding: prefer somebody else
            if let Some(o) = runnable.iter().map(|r| r.id()).filter(|&i| i != c).min() {
                return Some(o);
            }
        }
        runnable.iter().map(|r| r.id()).min()
    }

    fn next_u64(&mut self) -> u64 {
        self.rnd = vcore::splitmix(self.rnd ^ self.schedule.seed);
        self.rnd
    }
}

/// Re-execute one recorded schedule (see `FollowScheduler` for schedules that no longer fit).
pub fn replay<F>(prop: &str, program_hash: u64, schedule: &str, body: F) -> Result<Explored, String>
where
    F: Fn(&Arc<Probe>) + Send + Sync + Clone + 'static,
{
    let Some(s) = deserialize_schedule(schedule) else {
        return Err("schedule string does not decode".into());
    };
    let fs = FollowScheduler { schedule: s, pos: 0, diverged: false, started: false, rnd: 0 };
    let mut out = Explored::default();
    run_one_scheduler(prop, program_hash, Box::new(fs), &body, &mut out);
    Ok(out)
}

// ---------------------------------------------------------------------------------------
// Property plumbing: Case, Check impl, driver
// ---------------------------------------------------------------------------------------

pub trait SchedProp: Send + Sync + 'static {
    const ID: &'static str;
    type Program: Debug + Clone + Serialize + DeserializeOwned + Send + Sync + Hash + 'static;
    /// Runs as shuttle's main task, once per schedule: build the object under test and the
    /// harness-owned oracle state, spawn the program's threads, join them, check quiescence.
    fn body(program: &Arc<Self::Program>, probe: &Arc<Probe>);
    /// Static class labels of a program (histogram over programs).
    fn classes(program: &Self::Program) -> Vec<String>;
}

#[derive(Clone, Debug, Serialize, Deserialize)]
#[serde(bound = "")]
pub struct Case<P: Debug + Clone + Serialize + DeserializeOwned> {
    pub program: P,
    /// shuttle schedule string of the failing interleaving (absent in generated cases)
    #[serde(default)]
    pub schedule: Option<String>,
}

pub struct Checker<S: SchedProp> {
    pub ctx: Option<Arc<Ctx>>,
    pub plan: Plan,
    pub seed: u64,
    _p: PhantomData<S>,
}

impl<S: SchedProp> Checker<S> {
    pub fn new(ctx: Option<Arc<Ctx>>, plan: Plan) -> Self {
        let seed = ctx.as_ref().map(|c| c.seed).unwrap_or_else(vcore::seed_from_env);
        Checker { ctx, plan, seed, _p: PhantomData }
    }

    fn account(&self, e: &Explored) {
        if let Some(ctx) = &self.ctx {
            ctx.count_eval(e.schedules);
            for h in &e.nontrivial {
                ctx.count_nontrivial(*h);
            }
            for (k, v) in &e.classes {
                ctx.class(k, *v);
            }
        }
    }

    /// Outcome plus the failing schedule string.
    pub fn explore_case(&self, case: &Case<S::Program>, strict: bool) -> (Outcome, Option<String>) {
        self.explore_case_salted(case, strict, 0)
    }

    /// `salt` varies the scheduler seeds between occurrences of structurally equal programs
    /// in one run (small program spaces repeat programs; repeating their schedules too would
    /// be wasted work). 0 for replays.
    pub fn explore_case_salted(&self, case: &Case<S::Program>, strict: bool, salt: u64) -> (Outcome, Option<String>) {
        let program = Arc::new(case.program.clone());
        let ph = vcore::hash_of(&case.program);
        let mut out = Outcome::ok();
        let body = {
            let program = program.clone();
            move |probe: &Arc<Probe>| S::body(&program, probe)
        };
        if strict {
            if let Some(s) = &case.schedule {
                match replay(S::ID, ph, s, body.clone()) {
                    Ok(e) => {
                        self.account(&e);
                        if let Some((f, sched)) = e.failure {
                            out.failure = Some(Failure {
                                sig: f.sig,
                                detail: format!("{} [replayed schedule {}]", f.detail, sched),
                            });
                            return (out, Some(sched));
                        }
                    }
                    Err(why) => {
                        out.add_class(format!("replay:{}", why));
                    }
                }
            }
        }
        let seed = vcore::splitmix(self.seed ^ ph ^ vcore::splitmix(salt));
        let e = explore(S::ID, ph, seed, &self.plan, body);
        self.account(&e);
        match e.failure {
            Some((f, sched)) => {
                out.failure = Some(Failure { sig: f.sig, detail: format!("{} [schedule {}]", f.detail, sched) });
                (out, Some(sched))
            }
            None => (out, None),
        }
    }
}

impl<S: SchedProp> vcore::Check for Checker<S> {
    type Case = Case<S::Program>;
    fn run(&self, case: &Self::Case) -> Outcome {
        self.explore_case(case, false).0
    }
    fn run_strict(&self, case: &Self::Case) -> Outcome {
        self.explore_case(case, true).0
    }
}

/// vcore::drive, except that the replay file of a failure carries the failing schedule and
/// evidence is counted per schedule (done in `Checker::account`).
pub fn drive<S, St, F>(ctx: &Arc<Ctx>, check: &Checker<S>, make_strategy: F, programs: u64, workers: u64)
where
    S: SchedProp,
    St: Strategy<Value = S::Program>,
    F: Fn() -> St + Sync,
{
    vcore::replay_witnesses(ctx, check);
    if ctx.has_violation() {
        return;
    }
    let workers = workers.max(1);
    let per = (programs + workers - 1) / workers;
    std::thread::scope(|sc| {
        for w in 0..workers {
            let ctx = ctx.clone();
            let make_strategy = &make_strategy;
            sc.spawn(move || worker(&ctx, check, make_strategy(), per, w));
        }
    });
}

fn worker<S, St>(ctx: &Arc<Ctx>, check: &Checker<S>, strategy: St, programs: u64, w: u64)
where
    S: SchedProp,
    St: Strategy<Value = S::Program>,
{
    let config = PtConfig { failure_persistence: None, cases: 1, ..PtConfig::default() };
    let rng = vcore::rng_from_seed(vcore::splitmix(ctx.seed ^ (w.wrapping_mul(0xA24BAED4963EE407))));
    let mut runner = TestRunner::new_with_rng(config, rng);
    for i in 0..programs {
        if ctx.stop.load(Ordering::SeqCst) {
            return;
        }
        let salt = ((w + 1) << 32) | i;
        let mut tree = match strategy.new_tree(&mut runner) {
            Ok(t) => t,
            Err(_) => continue,
        };
        let case = Case { program: tree.current(), schedule: None };
        for c in S::classes(&case.program) {
            ctx.class(&c, 1);
        }
        ctx.class("programs", 1);
        if ctx.want_sample() {
            ctx.sample(serde_json::to_value(&case.program).unwrap_or(J::Null));
        }
        let (out, sched) = check.explore_case_salted(&case, false, salt);
        let Some(f) = out.failure else { continue };
        if ctx.is_known(&f.sig) {
            ctx.record_failure(&f, &J::Null);
            continue;
        }
        // unknown signature: shrink the program, keeping "some schedule fails with an unknown
        // signature" (every candidate is explored with its own derived seed)
        let t0 = Instant::now();
        let mut best = (case.clone(), f, sched);
        let mut steps = 0u32;
        'outer: loop {
            if steps > 400 || t0.elapsed().as_secs() > 60 || !tree.simplify() {
                break;
            }
            steps += 1;
            loop {
                let cand = Case { program: tree.current(), schedule: None };
                let (o, s) = check.explore_case_salted(&cand, false, salt);
                match o.failure.filter(|f| !ctx.is_known(&f.sig)) {
                    Some(f2) => {
                        best = (cand, f2, s);
                        break;
                    }
                    None => {
                        steps += 1;
                        if steps > 400 || t0.elapsed().as_secs() > 60 || !tree.complicate() {
                            break 'outer;
                        }
                    }
                }
            }
        }
        let (mut c, f, s) = best;
        c.schedule = s;
        ctx.record_failure(&f, &serde_json::to_value(&c).unwrap_or(J::Null));
        return;
    }
}

// ---------------------------------------------------------------------------------------
// Process-level helpers
// ---------------------------------------------------------------------------------------

/// Shuttle prints two or three lines to stderr for every failing execution (its panic hook
/// cannot be configured away). They carry nothing the replay file does not, so stderr is
/// parked on /dev/null while schedules run unless VSCHED_VERBOSE=1.
pub struct QuietStderr {
    saved: i32,
}

impl QuietStderr {
    pub fn new() -> QuietStderr {
        if std::env::var("VSCHED_VERBOSE").map(|v| v == "1").unwrap_or(false) {
            return QuietStderr { saved: -1 };
        }
        unsafe {
            let saved = libc::dup(2);
            let null = libc::open(b"/dev/null\0".as_ptr() as *const libc::c_char, libc::O_WRONLY);
            if saved >= 0 && null >= 0 {
                libc::dup2(null, 2);
                libc::close(null);
                QuietStderr { saved }
            } else {
                QuietStderr { saved: -1 }
            }
        }
    }
}

impl Drop for QuietStderr {
    fn drop(&mut self) {
        if self.saved >= 0 {
            unsafe {
                libc::dup2(self.saved, 2);
                libc::close(self.saved);
            }
        }
    }
}

pub const ASSUME_SC: &str = "shuttle executes every atomic operation as sequentially consistent and only switches threads at synchronisation operations (atomics, locks, condvars, yield): bugs that need weaker memory orderings or data races on plain memory are out of reach";
pub const ASSUME_SHIM: &str = "parking_lot is replaced by plshim (Mutex/Condvar over shuttle's; RwLock = readers/writer lock without writer preference; no spurious wakeups; Condvar::wait_for is an untimed wait, so a wait that only a timeout would end is reported as a deadlock); the included sources are compiled unchanged except for the mechanical std->shuttle path mapping in vsched/build.rs";

/// Common entry: replay mode or a full run.
pub fn main_for<S, St, F>(
    tier: Tier,
    replay_path: Option<String>,
    plan: Plan,
    programs: u64,
    rule: &str,
    assumptions: &[&str],
    make_strategy: impl FnOnce(&Arc<Ctx>) -> F,
) -> i32
where
    S: SchedProp,
    St: Strategy<Value = S::Program>,
    F: Fn() -> St + Sync,
{
    std::env::remove_var("SHUTTLE_RANDOM_SEED");
    if let Some(p) = replay_path {
        // vcore reports unreadable / undecodable files on stderr: check that before parking it
        let decodes = std::fs::read_to_string(&p)
            .ok()
            .and_then(|t| serde_json::from_str::<J>(&t).ok())
            .and_then(|d| serde_json::from_value::<Case<S::Program>>(d.get("case").cloned().unwrap_or(J::Null)).ok())
            .is_some();
        let quiet = if decodes { Some(QuietStderr::new()) } else { None };
        let check = Checker::<S>::new(None, plan);
        // install vcore's hook before shuttle wraps it
        vcore::install_panic_hook();
        let r = vcore::replay_file(S::ID, &check, &p);
        drop(quiet);
        return r;
    }
    let ctx = Ctx::new(S::ID, tier, "exploration");
    ctx.set_rule(rule);
    ctx.assume(ASSUME_SC);
    ctx.assume(ASSUME_SHIM);
    for a in assumptions {
        ctx.assume(a);
    }
    ctx.extra(
        "schedule_plan",
        json!({"pct_depth_schedules": plan.pct, "random_schedules": plan.random, "programs": programs}),
    );
    let strat = make_strategy(&ctx);
    let check = Checker::<S>::new(Some(ctx.clone()), plan);
    let quiet = QuietStderr::new();
    drive(&ctx, &check, strat, programs, 16);
    drop(quiet);
    ctx.finish()
}
