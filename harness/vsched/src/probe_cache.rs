// Harness-side observers inside the included module (private fields are read, nothing is edited).

/// (entries, capacity, index size) of every non-empty or over-full shard.
pub fn probe_shards(c: &PageCache) -> Vec<(usize, usize, usize, usize)> {
    c.shards
        .iter()
        .enumerate()
        .map(|(i, s)| {
            let g = s.read();
            (i, g.entries.len(), g.capacity, g.index.len())
        })
        .collect()
}

/// Shard index of a key.
pub fn probe_shard_of(c: &PageCache, key: &PageKey) -> usize {
    c.shard_index(key)
}

/// Pin count of a key, if cached.
pub fn probe_pin_count(c: &PageCache, key: &PageKey) -> Option<u32> {
    let g = c.shard(key).read();
    g.get(key).map(|i| g.entries[i].pin_count.load(Ordering::Acquire))
}

/// (entries, capacity, index size) of the shard a key falls into.
pub fn probe_shard(c: &PageCache, key: &PageKey) -> (usize, usize, usize) {
    let g = c.shard(key).read();
    (g.entries.len(), g.capacity, g.index.len())
}

/// Sum of all pin counts (call at quiescence).
pub fn probe_total_pins(c: &PageCache) -> u64 {
    c.shards
        .iter()
        .map(|s| {
            let g = s.read();
            g.entries.iter().map(|e| e.pin_count.load(Ordering::Acquire) as u64).sum::<u64>()
        })
        .sum()
}
