//! vsched <Cnn> <quick|thorough> | vsched <Cnn> --replay <file>
//!
//! Schedule exploration (shuttle) of TurDB's concurrency primitives. The sources under test
//! are textually included from $REPO_ROOT by build.rs (see there); the module tree below
//! only supplies the paths those files `use`.
#![allow(dead_code, unused_imports, clippy::all)]

use vcore::Tier;

/// `crate::config::*` — the tree's own constants file.
pub mod config {
    include!(concat!(env!("OUT_DIR"), "/constants.rs"));
}

/// Stubs for the few non-concurrency items the included files name.
pub mod stubs {
    /// `sysinfo::System`, used only by `MemoryBudget::auto_detect` (never called here).
    pub mod sysinfo {
        pub struct System;
        impl System {
            pub fn new() -> Self {
                System
            }
            pub fn refresh_memory(&mut self) {}
            pub fn total_memory(&self) -> u64 {
                64 << 30
            }
        }
    }
}

pub mod memory {
    pub mod budget {
        use crate::stubs::sysinfo;
        include!(concat!(env!("OUT_DIR"), "/budget.rs"));
    }
    pub use budget::{BudgetStats, MemoryBudget, MemoryError, Pool};

    /// Stand-in for the pooled 16 KiB WAL page buffer: group commit only moves it around.
    /// Carries the harness's payload id.
    #[derive(Debug, Clone, PartialEq, Eq)]
    pub struct PooledPageBuffer(pub u64);
}

pub mod storage {
    pub use crate::config::PAGE_SIZE;
    pub mod cache {
        include!(concat!(env!("OUT_DIR"), "/cache.rs"));
        include!("probe_cache.rs");
    }
}

pub mod database {
    pub mod page_locks {
        include!(concat!(env!("OUT_DIR"), "/page_locks.rs"));
        include!("probe_page_locks.rs");
    }
    pub mod group_commit {
        include!(concat!(env!("OUT_DIR"), "/group_commit.rs"));
        include!("probe_group_commit.rs");
    }
    include!(concat!(env!("OUT_DIR"), "/protocol.rs"));
}

mod engine;
mod c35;
mod c36;
mod c37;
mod c39;

fn main() {
    let args: Vec<String> = std::env::args().collect();
    if args.len() < 3 {
        eprintln!("usage: vsched <C35|C36|C37|C39> <quick|thorough>|--replay <file>");
        std::process::exit(2);
    }
    let prop = args[1].as_str();
    let replay = if args[2] == "--replay" { args.get(3).cloned() } else { None };
    let tier = match args[2].as_str() {
        "thorough" => Tier::Thorough,
        _ => Tier::Quick,
    };
    let code = match prop {
        "C35" => c35::main(tier, replay),
        "C36" => c36::main(tier, replay),
        "C37" => c37::main(tier, replay),
        "C39" => c39::main(tier, replay),
        _ => {
            eprintln!("unknown property {}", prop);
            2
        }
    };
    std::process::exit(code);
}
