//! C37 — group commit completes every commit exactly once (src/database/group_commit.rs as
//! used by src/database/transaction.rs::execute_small_commit).
//!
//! Program: 2–3 committer threads, each performing 1–3 commits (2–6 queue operations per
//! thread). A commit follows the database's caller protocol *literally* (`commit()` below
//! is a transcription of the tail of `execute_small_commit`; build.rs fingerprints that
//! code and this check refuses to run when the fingerprint is not one it transcribes):
//! `submit_and_wait(payload)`, then `take_pending()`, "write" the batch to the harness log
//! (the generator decides whether that flush fails), `complete_batch` / `fail_batch`.
//!
//! Oracle (harness-owned log): a commit that returns Ok has its payload durably in the log
//! at that moment, exactly once; no payload is handed to a flush twice; a commit whose batch
//! failed returns Err; shuttle's deadlock report = a committer waiting for a flush nobody
//! performs; at quiescence every submitted payload was flushed exactly once, the queue is
//! empty and the flush flag is clear.

use std::sync::atomic::{AtomicBool, AtomicU32, Ordering};
use std::sync::Arc;

use proptest::prelude::*;
use serde::{Deserialize, Serialize};
use smallvec::SmallVec;
use vcore::Tier;

use crate::database::group_commit::{probe_queue_state, CommitPayload, GroupCommitQueue, PendingCommit};
use crate::engine::{self, Plan, Probe, SchedProp};
use crate::memory::PooledPageBuffer;

pub const MAX_COMMITS: usize = 3;
const SLOTS: usize = 3 * MAX_COMMITS;

#[derive(Clone, Copy, Debug, Serialize, Deserialize, Hash, PartialEq, Eq)]
pub struct Commit {
    /// dirty pages in the payload (1..=2)
    pub pages: u8,
    /// if this committer ends up flushing a batch during this commit, the flush fails
    pub fail_flush: bool,
}

#[derive(Clone, Debug, Serialize, Deserialize, Hash)]
pub struct Program {
    pub threads: Vec<Vec<Commit>>,
}

#[derive(Default)]
struct Log {
    /// times a payload was handed to a flush (successful or not)
    attempts: [AtomicU32; SLOTS],
    /// times a payload became durable (flush succeeded)
    durable: [AtomicU32; SLOTS],
    /// payload was part of a batch whose flush failed
    failed: [AtomicBool; SLOTS],
    submitted: [AtomicBool; SLOTS],
}

/// The harness's WAL: the leader writes every page of every commit of the batch.
fn flush(log: &Log, probe: &Probe, batch: &[Arc<PendingCommit>], fail: bool) -> Result<(), String> {
    let mut ids: Vec<usize> = Vec::new();
    for c in batch {
        let mut id = None;
        for (_table, _page, buf, _size) in c.payload.iter() {
            id = Some(buf.0 as usize);
        }
        if let Some(id) = id {
            let n = log.attempts[id].fetch_add(1, Ordering::SeqCst) + 1;
            if n > 1 {
                probe.fail(
                    "C37|exactly_once|flushed_twice",
                    format!("payload {} was handed to a WAL flush {} times", id, n),
                );
            }
            ids.push(id);
        }
    }
    // the write + fsync take time: let the other committers run
    shuttle::thread::yield_now();
    if batch.len() > 1 {
        probe.class("flush:batched");
    }
    if fail {
        for id in ids {
            log.failed[id].store(true, Ordering::SeqCst);
        }
        probe.class("flush:failed");
        Err("injected WAL flush failure".to_string())
    } else {
        for id in ids {
            log.durable[id].fetch_add(1, Ordering::SeqCst);
        }
        Ok(())
    }
}

/// Transcription of `execute_small_commit` from `group_commit_queue.is_enabled()` on.
#[cfg(not(gc_submit_outcome))]
fn commit(q: &GroupCommitQueue, log: &Log, probe: &Probe, payload: CommitPayload, fail_flush: bool) -> Result<(), String> {
    if q.is_enabled() {
        match probe.call(|| q.submit_and_wait(payload)) {
            Ok(_batch_id) => {
                if let Some(pending_commits) = probe.call(|| q.take_pending()) {
                    probe.class("role:flusher");
                    let result = flush(log, probe, &pending_commits, fail_flush);
                    match &result {
                        Ok(()) => probe.call(|| q.complete_batch(&pending_commits)),
                        Err(e) => probe.call(|| q.fail_batch(&pending_commits, e)),
                    }
                    result?;
                } else {
                    probe.class("role:nothing_to_flush");
                }
            }
            Err(e) => {
                return Err(format!("group commit failed: {}", e));
            }
        }
    }
    Ok(())
}

/// Transcription of the protocol after the leader-only fix (`SubmitOutcome`).
#[cfg(gc_submit_outcome)]
fn commit(q: &GroupCommitQueue, log: &Log, probe: &Probe, payload: CommitPayload, fail_flush: bool) -> Result<(), String> {
    if q.is_enabled() {
        match probe.call(|| q.submit_and_wait(payload)) {
            Ok(outcome) => {
                let pending = if outcome.is_leader() {
                    probe.call(|| q.take_pending())
                } else {
                    probe.class("role:follower");
                    None
                };
                if let Some(pending_commits) = pending {
                    probe.class("role:flusher");
                    let result = flush(log, probe, &pending_commits, fail_flush);
                    match &result {
                        Ok(()) => probe.call(|| q.complete_batch(&pending_commits)),
                        Err(e) => probe.call(|| q.fail_batch(&pending_commits, e)),
                    }
                    result?;
                } else if outcome.is_leader() {
                    probe.class("role:leader_found_nothing");
                }
            }
            Err(e) => {
                return Err(format!("group commit failed: {}", e));
            }
        }
    }
    Ok(())
}

pub struct C37;

impl SchedProp for C37 {
    const ID: &'static str = "C37";
    type Program = Program;

    fn body(program: &Arc<Program>, probe: &Arc<Probe>) {
        let q = Arc::new(GroupCommitQueue::with_default_config());
        let log: Arc<Log> = Arc::new(Log::default());
        let mut hs = Vec::new();
        for ti in 0..program.threads.len() {
            let (q, log, probe, program) = (q.clone(), log.clone(), probe.clone(), program.clone());
            hs.push(shuttle::thread::spawn(move || {
                for (k, c) in program.threads[ti].iter().enumerate().take(MAX_COMMITS) {
                    let id = ti * MAX_COMMITS + k;
                    let mut payload: CommitPayload = SmallVec::new();
                    for p in 0..c.pages.clamp(1, 2) {
                        payload.push((ti as u32 + 1, p as u32, PooledPageBuffer(id as u64), 8));
                    }
                    log.submitted[id].store(true, Ordering::SeqCst);
                    let r = commit(&q, &log, &probe, payload, c.fail_flush);
                    let durable = log.durable[id].load(Ordering::SeqCst);
                    let failed = log.failed[id].load(Ordering::SeqCst);
                    let attempts = log.attempts[id].load(Ordering::SeqCst);
                    match r {
                        Ok(()) => {
                            if failed {
                                probe.fail(
                                    "C37|failure_reporting|ok_for_commit_of_failed_batch",
                                    format!("commit {} (thread {}) returned Ok although the flush of its batch failed", id, ti),
                                );
                            } else if durable == 0 {
                                probe.fail(
                                    "C37|durability|ok_before_written",
                                    format!(
                                        "commit {} (thread {}) returned Ok but its payload is not in the log yet (handed to a flush {} times, durable 0)",
                                        id, ti, attempts
                                    ),
                                );
                            } else if durable > 1 {
                                probe.fail(
                                    "C37|exactly_once|written_twice",
                                    format!("commit {} (thread {}) is in the log {} times", id, ti, durable),
                                );
                            }
                        }
                        Err(_) => {
                            if durable > 0 && !failed {
                                // allowed by the statement (it only constrains success), but worth seeing
                                probe.class("result:err_although_durable");
                            }
                        }
                    }
                }
            }));
        }
        for h in hs {
            let _ = h.join();
        }
        let (pending, flag) = probe_queue_state(&q);
        if pending != 0 {
            probe.fail(
                "C37|quiescence|pending_left",
                format!("{} commits are still queued after every committer returned", pending),
            );
        }
        if flag {
            probe.fail("C37|quiescence|flush_flag_stuck", "flush_in_progress is still set after every committer returned");
        }
        for id in 0..SLOTS {
            if !log.submitted[id].load(Ordering::SeqCst) {
                continue;
            }
            let a = log.attempts[id].load(Ordering::SeqCst);
            if a == 0 {
                probe.fail(
                    "C37|exactly_once|never_flushed",
                    format!("payload {} was submitted but never handed to a flush", id),
                );
            }
        }
    }

    fn classes(p: &Program) -> Vec<String> {
        let mut c = vec![format!("threads:{}", p.threads.len())];
        let total: usize = p.threads.iter().map(|t| t.len()).sum();
        c.push(format!("commits:{}", total));
        if p.threads.iter().flatten().any(|c| c.fail_flush) {
            c.push("injected_flush_failure".into());
        }
        c
    }
}

pub fn strategy(max_threads: usize, max_commits: usize) -> BoxedStrategy<Program> {
    let commit = (1u8..=2, prop::bool::weighted(0.25)).prop_map(|(pages, fail_flush)| Commit { pages, fail_flush });
    let thread = prop::collection::vec(commit, 1..=max_commits.min(MAX_COMMITS));
    prop::collection::vec(thread, 2..=max_threads).prop_map(|threads| Program { threads }).boxed()
}

/// whitespace-free text of the caller protocol this check transcribes (see build.rs)
#[cfg(not(gc_submit_outcome))]
const KNOWN_PROTOCOL: &str = include_str!("protocol_v0.txt");
#[cfg(gc_submit_outcome)]
const KNOWN_PROTOCOL: &str = include_str!("protocol_v1.txt");

pub fn main(tier: Tier, replay: Option<String>) -> i32 {
    if crate::database::COMMIT_PROTOCOL_FINGERPRINT != KNOWN_PROTOCOL.trim() {
        println!(
            "INCONCLUSIVE property=C37 the group-commit caller protocol in src/database/transaction.rs::execute_small_commit is not one this check transcribes (harness/vsched/src/c37.rs::commit must be updated)"
        );
        return 2;
    }
    let plan = Plan::of(tier.pick(250, 800));
    let programs = tier.pick(2400, 28_000);
    engine::main_for::<C37, _, _>(
        tier,
        replay,
        plan,
        programs,
        "case = (program, schedule): 2-3 committer threads x 1-3 commits (1-2 pages each; the generator marks commits whose flush, if that committer ends up flushing, fails), each commit running the database's submit_and_wait/take_pending/flush/complete_batch|fail_batch protocol on a default-config queue, executed under one shuttle schedule (PCT depth 2-5 or uniform random). Non-trivial = the schedule contains >= 1 context switch away from a thread that is inside a GroupCommitQueue call; distinct by hash of (program, scheduling decisions).",
        &[
            "commit() in c37.rs is a hand transcription of execute_small_commit's group-commit tail; build.rs fingerprints that code and the check exits 2 when it changes",
            "the queue uses GroupCommitConfig::default() as Database does (min_batch_size 1, so batch timing never depends on the wall clock); the 30 s wait_for timeout is never taken (untimed wait)",
            "a failed flush makes none of its payloads durable; a flush yields once (models I/O latency)",
            "bounds: 2-3 threads, 1-3 commits each",
        ],
        move |ctx| {
            // Gate for the tree *without* the leader-only fix (finding "a follower takes a new
            // leader's commit"): that needs a commit submitted while a follower of an earlier
            // batch has not yet made its own take_pending call, i.e. >= 3 commits in the
            // program. With the gate closed only 2 threads x 1 commit are generated.
            let narrow = ctx.gate_closed("commit_while_follower_returns");
            move || if narrow { strategy(2, 1) } else { strategy(3, tier.pick(2, 3)) }
        },
    )
}
