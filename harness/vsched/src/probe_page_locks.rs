// Harness-side observers living *inside* the included module (they read private fields; the
// included text itself is untouched).

/// Number of page-lock entries left in all shard maps (takes each shard mutex: call only at
/// quiescence, it is a scheduling point like any lock).
pub fn probe_page_entries(m: &PageLockManager) -> usize {
    m.page_shards.iter().map(|s| s.locks.lock().len()).sum()
}

/// Number of table-lock states left in all table shard maps.
pub fn probe_table_entries(m: &PageLockManager) -> usize {
    m.table_shards.iter().map(|s| s.locks.read().len()).sum()
}

/// Shard a page falls into (to let the generator pick colliding pages on purpose).
pub fn probe_page_shard(table_id: u32, page_no: u32) -> usize {
    PageId::new(table_id, page_no).shard_index()
}

/// (table, page) a write guard belongs to.
pub fn probe_write_guard_page(g: &PageWriteGuard<'_>) -> (u32, u32) {
    (g.page_id.table_id, g.page_id.page_no)
}
