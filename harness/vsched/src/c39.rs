//! C39 — the memory budget is a hard limit (src/memory/budget.rs).
//!
//! Program: 2–3 threads × 2–6 operations on one `MemoryBudget::with_limit(4 MiB)` (the
//! smallest budget the type accepts): `allocate` / `try_allocate` of 0.5–3 MiB in one of the
//! five pools, `release` of one of the thread's own live allocations. Threads may end while
//! still holding allocations.
//!
//! Oracle (harness-owned): `granted` = Σ bytes of allocations whose call has *returned*
//! success minus Σ bytes of releases that have been *started*. It never exceeds the true
//! tracked usage, so `granted > total_limit()` proves the limit was broken (the budget's own
//! `total_used()` is a five-load sum and can misreport under concurrency, so it is only read
//! at quiescence). At quiescence every pool counter equals the harness's sum for that pool,
//! and after releasing what is still held every counter is zero.

use std::sync::atomic::{AtomicUsize, Ordering};
use std::sync::Arc;

use proptest::prelude::*;
use serde::{Deserialize, Serialize};
use vcore::Tier;

use crate::engine::{self, Plan, Probe, SchedProp};
use crate::memory::{MemoryBudget, Pool};

const KIB: usize = 1024;
pub const SIZES: [usize; 5] = [512 * KIB, 1024 * KIB, 1536 * KIB, 2048 * KIB, 3072 * KIB];
pub const POOLS: [Pool; 5] = [Pool::Cache, Pool::Query, Pool::Recovery, Pool::Schema, Pool::Shared];
pub const LIMIT: usize = 4 * 1024 * KIB;

#[derive(Clone, Copy, Debug, Serialize, Deserialize, Hash, PartialEq, Eq)]
pub enum Op {
    /// allocate(pool, SIZES[size])
    Alloc { pool: u8, size: u8 },
    /// try_allocate(pool, SIZES[size])
    TryAlloc { pool: u8, size: u8 },
    /// release the thread's `nth` live allocation (modulo the number held; no-op if none)
    Release { nth: u8 },
}

#[derive(Clone, Debug, Serialize, Deserialize, Hash)]
pub struct Program {
    pub threads: Vec<Vec<Op>>,
}

struct Oracle {
    granted: AtomicUsize,
    per_pool: [AtomicUsize; 5],
}

pub struct C39;

impl SchedProp for C39 {
    const ID: &'static str = "C39";
    type Program = Program;

    fn body(program: &Arc<Program>, probe: &Arc<Probe>) {
        let b = Arc::new(MemoryBudget::with_limit(LIMIT));
        let o = Arc::new(Oracle { granted: AtomicUsize::new(0), per_pool: Default::default() });
        let limit = b.total_limit();
        let mut hs = Vec::new();
        for ti in 0..program.threads.len() {
            let (b, o, probe, program) = (b.clone(), o.clone(), probe.clone(), program.clone());
            hs.push(shuttle::thread::spawn(move || {
                let mut live: Vec<(u8, usize)> = Vec::new();
                for op in &program.threads[ti] {
                    match *op {
                        Op::Alloc { pool, size } | Op::TryAlloc { pool, size } => {
                            let (pl, bytes) = (POOLS[pool as usize], SIZES[size as usize]);
                            let ok = if matches!(op, Op::Alloc { .. }) {
                                probe.call(|| b.allocate(pl, bytes)).is_ok()
                            } else {
                                probe.call(|| b.try_allocate(pl, bytes))
                            };
                            if ok {
                                let g = o.granted.fetch_add(bytes, Ordering::SeqCst) + bytes;
                                o.per_pool[pool as usize].fetch_add(bytes, Ordering::SeqCst);
                                probe.holding(1);
                                live.push((pool, bytes));
                                if g > limit {
                                    probe.fail(
                                        "C39|hard_limit|granted_exceeds_limit",
                                        format!(
                                            "thread {}: allocate({}, {}) succeeded; allocations granted and not yet released now total {} bytes > total_limit {}",
                                            ti, pl.name(), bytes, g, limit
                                        ),
                                    );
                                }
                            }
                        }
                        Op::Release { nth } => {
                            if live.is_empty() {
                                continue;
                            }
                            let (pool, bytes) = live.remove(nth as usize % live.len());
                            o.granted.fetch_sub(bytes, Ordering::SeqCst);
                            o.per_pool[pool as usize].fetch_sub(bytes, Ordering::SeqCst);
                            probe.call(|| b.release(POOLS[pool as usize], bytes));
                            probe.holding(-1);
                        }
                    }
                }
                live
            }));
        }
        let mut left: Vec<(u8, usize)> = Vec::new();
        for h in hs {
            if let Ok(l) = h.join() {
                left.extend(l);
            }
        }
        // quiescence 1: every pool counter equals successful allocations minus releases
        let st = b.stats();
        let used = [st.cache_used, st.query_used, st.recovery_used, st.schema_used, st.shared_used];
        for i in 0..5 {
            let want = o.per_pool[i].load(Ordering::SeqCst);
            if used[i] != want {
                probe.fail(
                    "C39|accounting|pool_usage_differs",
                    format!("pool {}: budget reports {} bytes used, successful allocations minus releases = {}", POOLS[i].name(), used[i], want),
                );
            }
        }
        if st.total_used > limit {
            probe.fail(
                "C39|hard_limit|quiescent_total_exceeds_limit",
                format!("with all threads finished total_used = {} > total_limit {}", st.total_used, limit),
            );
        }
        // quiescence 2: release what is still held, everything returns to zero
        for (pool, bytes) in left {
            b.release(POOLS[pool as usize], bytes);
        }
        if b.total_used() != 0 {
            probe.fail(
                "C39|accounting|not_zero_after_release_all",
                format!("total_used = {} after everything was released", b.total_used()),
            );
        }
    }

    fn classes(p: &Program) -> Vec<String> {
        let mut c = vec![format!("threads:{}", p.threads.len())];
        let mut pools_per_thread: Vec<u8> = Vec::new();
        let mut sum = 0usize;
        let mut release = false;
        for t in &p.threads {
            let mut mask = 0u8;
            let mut first = true;
            for op in t {
                match *op {
                    Op::Alloc { pool, size } | Op::TryAlloc { pool, size } => {
                        mask |= 1 << pool;
                        if first {
                            sum += SIZES[size as usize];
                            first = false;
                        }
                    }
                    Op::Release { .. } => release = true,
                }
            }
            pools_per_thread.push(mask);
        }
        let all_or = pools_per_thread.iter().fold(0u8, |a, b| a | b);
        if all_or.count_ones() >= 2 {
            c.push("different_pools".into());
        }
        let mut same = false;
        for i in 0..pools_per_thread.len() {
            for j in i + 1..pools_per_thread.len() {
                same |= pools_per_thread[i] & pools_per_thread[j] != 0;
            }
        }
        if same {
            c.push("same_pool_in_two_threads".into());
        }
        if sum > LIMIT {
            c.push("first_allocations_jointly_over_limit".into());
        }
        if release {
            c.push("release".into());
        }
        c
    }
}

pub fn strategy(max_threads: usize, max_ops: usize) -> BoxedStrategy<Program> {
    let op = prop_oneof![
        4 => (0u8..5, 0u8..5).prop_map(|(pool, size)| Op::Alloc { pool, size }),
        2 => (0u8..5, 0u8..5).prop_map(|(pool, size)| Op::TryAlloc { pool, size }),
        3 => (0u8..4).prop_map(|nth| Op::Release { nth }),
    ];
    let thread = prop::collection::vec(op, 2..=max_ops).prop_map(|mut ops| {
        // a thread starts by allocating (a leading release would be a no-op)
        if matches!(ops[0], Op::Release { .. }) {
            ops[0] = Op::Alloc { pool: 1, size: 3 };
        }
        ops
    });
    prop::collection::vec(thread, 2..=max_threads).prop_map(|threads| Program { threads }).boxed()
}

pub fn main(tier: Tier, replay: Option<String>) -> i32 {
    let plan = Plan::of(tier.pick(200, 800));
    let programs = tier.pick(2400, 32_000);
    engine::main_for::<C39, _, _>(
        tier,
        replay,
        plan,
        programs,
        "case = (program, schedule): 2-3 threads x 2-6 operations (allocate / try_allocate of 0.5-3 MiB in one of the 5 pools, release of an own live allocation) on a 4 MiB budget, executed under one shuttle schedule (PCT depth 2-5 or uniform random). Non-trivial = the schedule contains >= 1 context switch away from a thread that is inside allocate/try_allocate/release; distinct by hash of (program, scheduling decisions).",
        &[
            "callers release only bytes they allocated in the same pool (release saturates at zero otherwise and accounting is undefined)",
            "bounds: 2-3 threads, 2-6 operations each, budget = MIN_BUDGET_FLOOR (4 MiB), request sizes 0.5/1/1.5/2/3 MiB",
            "the limit is judged on harness-side sums (granted-and-returned minus release-started), a lower bound of the true tracked usage; spurious allocation failures are not judged (the property only bounds successes)",
        ],
        |_ctx| || strategy(3, 6),
    )
}
