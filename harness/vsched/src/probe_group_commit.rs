// Harness-side observers inside the included module (private fields are read, nothing is edited).

/// (pending commits, flush flag) under the queue's own mutex.
pub fn probe_queue_state(q: &GroupCommitQueue) -> (usize, bool) {
    let st = q.state.lock();
    (st.pending.len(), st.flush_in_progress)
}
