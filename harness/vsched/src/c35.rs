//! C35 — the page cache never evicts pinned pages or mixes contents (src/storage/cache.rs
//! with src/memory/budget.rs).
//!
//! Program: 2–3 threads × 2–6 operations on one `PageCache` of 64/128/192 entries (1–3 per
//! shard) with four keys that collide in one shard plus one key elsewhere, with or without a
//! `MemoryBudget` that leaves room for 1–4 pages: `get_or_insert` (the loader may fail),
//! `get`, write / read through a held `PageRef`, drop (unpin).
//!
//! Oracle (harness-owned): per key the number of live `PageRef`s the harness holds and the
//! value last put into the page (by the loader or by a write). The loader running for a key
//! that has a live `PageRef` means a pinned page was evicted; every read through a live
//! `PageRef` returns the last value for that key (TurDB's own `expect("page not in cache")`
//! is a panic = violation); after each insert the shard holds ≤ capacity entries and its
//! index matches; at quiescence no pin is left, and after `clear()` the budget's cache pool
//! (minus what the harness itself parked there) is zero.

use std::sync::atomic::{AtomicI32, AtomicU8, Ordering};
use std::sync::Arc;

use proptest::prelude::*;
use serde::{Deserialize, Serialize};
use vcore::Tier;

use crate::config::{CACHE_RESERVED, PAGE_SIZE, QUERY_RESERVED, RECOVERY_RESERVED, SCHEMA_RESERVED, TOTAL_RESERVED};
use crate::engine::{self, Plan, Probe, SchedProp};
use crate::memory::{MemoryBudget, Pool};
use crate::storage::cache::{probe_shard, probe_shards, probe_total_pins, PageCache, PageKey, PageRef};

/// (file_id, page_no); the first four share shard 31, the last lives in shard 32.
pub const KEYS: [(u32, u32); 5] = [(1, 0), (1, 64), (1, 128), (3, 2), (1, 1)];
const LIMIT: usize = 4 * 1024 * 1024;

#[derive(Clone, Copy, Debug, Serialize, Deserialize, Hash, PartialEq, Eq)]
pub enum Op {
    /// get_or_insert(key, loader); the loader writes `fill` or fails
    GetOrInsert { key: u8, fill: u8, load_fails: bool },
    /// get(key)
    Get { key: u8 },
    /// write `val` through the thread's `nth` live PageRef (modulo; no-op if none)
    Write { nth: u8, val: u8 },
    /// read through the thread's `nth` live PageRef and compare
    Read { nth: u8 },
    /// drop the thread's `nth` live PageRef
    Unpin { nth: u8 },
}

#[derive(Clone, Debug, Serialize, Deserialize, Hash)]
pub struct Program {
    /// entries per shard (cache capacity = 64 × this)
    pub per_shard: u8,
    /// Some(n): a MemoryBudget with room for n more pages; None: no budget
    pub budget_room: Option<u8>,
    pub threads: Vec<Vec<Op>>,
}

struct Oracle {
    pins: [AtomicI32; KEYS.len()],
    content: [AtomicU8; KEYS.len()],
    /// times the loader completed for the key (second time = it had been evicted)
    loads: [AtomicU8; KEYS.len()],
}

const MARKS: [usize; 3] = [0, 100, PAGE_SIZE - 1];

fn key_of(k: u8) -> PageKey {
    let (f, p) = KEYS[k as usize];
    PageKey::new(f, p)
}

fn check_read(o: &Oracle, probe: &Probe, k: u8, r: &PageRef<'_>, ti: usize, when: &str) {
    let d = r.data();
    let want = o.content[k as usize].load(Ordering::SeqCst);
    let got = [d[MARKS[0]], d[MARKS[1]], d[MARKS[2]]];
    if got != [want; 3] {
        probe.fail(
            "C35|contents|pinned_page_has_other_bytes",
            format!(
                "thread {} {}: key {:?} is pinned by this PageRef; last value written for the key is {}, page holds {:?}",
                ti, when, KEYS[k as usize], want, got
            ),
        );
    }
}

fn check_shard(c: &PageCache, probe: &Probe, k: u8) {
    let (len, cap, idx) = probe_shard(c, &key_of(k));
    if len > cap {
        probe.fail(
            "C35|capacity|shard_over_capacity",
            format!("shard of key {:?} holds {} entries, capacity {}", KEYS[k as usize], len, cap),
        );
    } else if idx != len {
        probe.fail(
            "C35|capacity|index_differs_from_entries",
            format!("shard of key {:?}: {} entries but {} index slots", KEYS[k as usize], len, idx),
        );
    }
}

pub struct C35;

impl SchedProp for C35 {
    const ID: &'static str = "C35";
    type Program = Program;

    fn body(program: &Arc<Program>, probe: &Arc<Probe>) {
        // budget with room for `n` pages: reserved pools full, shared pool filled up to n pages
        let mut parked: Vec<(Pool, usize)> = Vec::new();
        let budget = program.budget_room.map(|n| {
            let b = Arc::new(MemoryBudget::with_limit(LIMIT));
            let shared = LIMIT - TOTAL_RESERVED - (n as usize).clamp(1, 8) * PAGE_SIZE;
            for (pool, bytes) in [
                (Pool::Cache, CACHE_RESERVED),
                (Pool::Query, QUERY_RESERVED),
                (Pool::Recovery, RECOVERY_RESERVED),
                (Pool::Schema, SCHEMA_RESERVED),
                (Pool::Shared, shared),
            ] {
                if b.allocate(pool, bytes).is_ok() {
                    parked.push((pool, bytes));
                }
            }
            b
        });
        let per_shard = program.per_shard.clamp(1, 3) as usize;
        let cache = match PageCache::with_budget(64 * per_shard, budget.clone()) {
            Ok(c) => Arc::new(c),
            Err(e) => {
                probe.fail("C35|setup|cache_construction_failed", format!("{}", e));
                return;
            }
        };
        let o = Arc::new(Oracle { pins: Default::default(), content: Default::default(), loads: Default::default() });
        let mut hs = Vec::new();
        for ti in 0..program.threads.len() {
            let (cache, o, probe, program) = (cache.clone(), o.clone(), probe.clone(), program.clone());
            hs.push(shuttle::thread::spawn(move || {
                let mut live: Vec<(u8, PageRef<'_>)> = Vec::new();
                for op in &program.threads[ti] {
                    match *op {
                        Op::GetOrInsert { key, fill, load_fails } => {
                            let (o2, p2) = (o.clone(), probe.clone());
                            let r = probe.call(|| {
                                cache.get_or_insert(key_of(key), move |data: &mut [u8]| {
                                    // runs under the shard's write lock, only when the key is absent
                                    let pinned = o2.pins[key as usize].load(Ordering::SeqCst);
                                    if pinned > 0 {
                                        p2.fail(
                                            "C35|pinned|loaded_again_while_pinned",
                                            format!(
                                                "the loader runs for key {:?} (i.e. the key is absent) while {} live PageRef(s) pin it: a pinned page was evicted",
                                                KEYS[key as usize], pinned
                                            ),
                                        );
                                    }
                                    if load_fails {
                                        eyre::bail!("injected page load failure");
                                    }
                                    for m in MARKS {
                                        data[m] = fill;
                                    }
                                    o2.content[key as usize].store(fill, Ordering::SeqCst);
                                    if o2.loads[key as usize].fetch_add(1, Ordering::SeqCst) > 0 {
                                        p2.class("reload_after_eviction");
                                    }
                                    Ok(())
                                })
                            });
                            match r {
                                Ok(page) => {
                                    o.pins[key as usize].fetch_add(1, Ordering::SeqCst);
                                    probe.holding(1);
                                    check_read(&o, &probe, key, &page, ti, "after get_or_insert");
                                    live.push((key, page));
                                    check_shard(&cache, &probe, key);
                                }
                                Err(e) => {
                                    let m = e.to_string();
                                    probe.class(if m.contains("all pages pinned") {
                                        "get_or_insert:err_all_pinned"
                                    } else if m.contains("injected") {
                                        "get_or_insert:err_loader"
                                    } else if m.contains("budget") {
                                        "get_or_insert:err_budget"
                                    } else {
                                        "get_or_insert:err_other"
                                    })
                                }
                            }
                        }
                        Op::Get { key } => {
                            if let Some(page) = probe.call(|| cache.get(&key_of(key))) {
                                o.pins[key as usize].fetch_add(1, Ordering::SeqCst);
                                probe.holding(1);
                                check_read(&o, &probe, key, &page, ti, "after get");
                                live.push((key, page));
                                probe.class("get:hit");
                            }
                        }
                        Op::Write { nth, val } => {
                            if live.is_empty() {
                                continue;
                            }
                            let i = nth as usize % live.len();
                            let k = live[i].0;
                            let d = probe.call(|| live[i].1.data_mut());
                            for m in MARKS {
                                d[m] = val;
                            }
                            o.content[k as usize].store(val, Ordering::SeqCst);
                        }
                        Op::Read { nth } => {
                            if live.is_empty() {
                                continue;
                            }
                            let i = nth as usize % live.len();
                            let k = live[i].0;
                            probe.call(|| check_read(&o, &probe, k, &live[i].1, ti, "read"));
                        }
                        Op::Unpin { nth } => {
                            if live.is_empty() {
                                continue;
                            }
                            let (k, page) = live.remove(nth as usize % live.len());
                            o.pins[k as usize].fetch_sub(1, Ordering::SeqCst);
                            probe.call(move || drop(page));
                            probe.holding(-1);
                        }
                    }
                }
                // a thread ends by re-reading and dropping what it still pins
                while let Some((k, page)) = live.pop() {
                    probe.call(|| check_read(&o, &probe, k, &page, ti, "before final unpin"));
                    o.pins[k as usize].fetch_sub(1, Ordering::SeqCst);
                    probe.call(move || drop(page));
                    probe.holding(-1);
                }
            }));
        }
        for h in hs {
            let _ = h.join();
        }
        let mut cached = 0usize;
        for (i, len, cap, idx) in probe_shards(&cache) {
            cached += len;
            if len > cap {
                probe.fail("C35|capacity|shard_over_capacity", format!("shard {} holds {} entries, capacity {}", i, len, cap));
            } else if idx != len {
                probe.fail(
                    "C35|capacity|index_differs_from_entries",
                    format!("shard {}: {} entries but {} index slots", i, len, idx),
                );
            }
        }
        let loads: usize = o.loads.iter().map(|l| l.load(Ordering::SeqCst) as usize).sum();
        if loads > cached {
            probe.class("eviction_happened");
        }
        let pins = probe_total_pins(&cache);
        if pins != 0 {
            probe.fail("C35|pinned|pins_left_at_quiescence", format!("{} pins remain after every PageRef was dropped", pins));
        }
        cache.clear();
        if !cache.is_empty() {
            probe.fail("C35|clear|entries_left", format!("{} entries after clear()", cache.len()));
        }
        if let Some(b) = &budget {
            for (pool, bytes) in parked {
                b.release(pool, bytes);
            }
            let st = b.stats();
            if st.cache_used != 0 {
                probe.fail(
                    "C35|budget|cache_pool_not_zero_after_clear",
                    format!("after clear() the budget still charges {} bytes to the cache pool ({} pages)", st.cache_used, st.cache_used / PAGE_SIZE),
                );
            }
        }
    }

    fn classes(p: &Program) -> Vec<String> {
        let mut c = vec![format!("threads:{}", p.threads.len()), format!("per_shard:{}", p.per_shard)];
        c.push(if p.budget_room.is_some() { "budget".into() } else { "no_budget".into() });
        let mut inserts_colliding = 0;
        let mut fails = false;
        let mut key_threads = [0u8; KEYS.len()];
        for t in &p.threads {
            let mut seen = [false; KEYS.len()];
            for op in t {
                match *op {
                    Op::GetOrInsert { key, load_fails, .. } => {
                        seen[key as usize] = true;
                        fails |= load_fails;
                        if key < 4 {
                            inserts_colliding += 1;
                        }
                    }
                    Op::Get { key } => seen[key as usize] = true,
                    _ => {}
                }
            }
            for i in 0..KEYS.len() {
                key_threads[i] += seen[i] as u8;
            }
        }
        if key_threads.iter().any(|&n| n >= 2) {
            c.push("common_key".into());
        }
        if inserts_colliding > p.per_shard as usize {
            c.push("more_colliding_inserts_than_capacity".into());
        }
        if fails {
            c.push("loader_failure".into());
        }
        c
    }
}

pub fn strategy(max_threads: usize, max_ops: usize, allow_load_failure: bool) -> BoxedStrategy<Program> {
    let key = prop_oneof![4 => 0u8..4, 1 => Just(4u8)];
    let fail = if allow_load_failure { prop::bool::weighted(0.1).boxed() } else { Just(false).boxed() };
    let op = prop_oneof![
        5 => (key.clone(), 1u8..=250, fail).prop_map(|(key, fill, load_fails)| Op::GetOrInsert { key, fill, load_fails }),
        2 => key.prop_map(|key| Op::Get { key }),
        2 => (0u8..3, 1u8..=250).prop_map(|(nth, val)| Op::Write { nth, val }),
        1 => (0u8..3).prop_map(|nth| Op::Read { nth }),
        6 => (0u8..3).prop_map(|nth| Op::Unpin { nth }),
    ];
    let thread = prop::collection::vec(op, 2..=max_ops);
    (
        1u8..=3,
        prop_oneof![1 => Just(None), 2 => (1u8..=4).prop_map(Some)],
        prop::collection::vec(thread, 2..=max_threads),
    )
        .prop_map(|(per_shard, budget_room, threads)| Program { per_shard, budget_room, threads })
        .boxed()
}

pub fn main(tier: Tier, replay: Option<String>) -> i32 {
    let plan = Plan::of(tier.pick(120, 600));
    let programs = tier.pick(1600, 18_000);
    engine::main_for::<C35, _, _>(
        tier,
        replay,
        plan,
        programs,
        "case = (program, schedule): 2-3 threads x 2-6 operations (get_or_insert with a loader that may fail, get, write/read through a held PageRef, drop) on a PageCache with 1-3 entries per shard, 4 keys colliding in one shard + 1 elsewhere, with no budget or a MemoryBudget with room for 1-4 pages, executed under one shuttle schedule (PCT depth 2-5 or uniform random). Non-trivial = the schedule contains >= 1 context switch away from a thread that is inside a PageCache/PageRef call; distinct by hash of (program, scheduling decisions).",
        &[
            "page bytes are only touched through a live PageRef and the harness updates its expectation in the same scheduling step (shuttle does not preempt plain memory accesses); callers are responsible for not mutating a page concurrently (cache.rs says so), which under shuttle holds by construction",
            "clear() is called at quiescence only (the property's operation list is get/insert/write/unpin); evict_all_unpinned is not exercised",
            "the budget variant parks the reserved pools and most of the shared pool from the harness so that the cache has room for 1-4 pages; those bytes are released before the final zero check",
            "bounds: 2-3 threads, 2-6 operations each",
        ],
        |ctx| {
            let allow = !ctx.gate_closed("loader_failure");
            move || strategy(3, 6, allow)
        },
    )
}
