//! libFuzzer entry for the C23 decoders. VERIF_FUZZ_TARGET = one of vtargets::dec::TARGETS
//! or `dbfile`. Panics / oracle violations whose signature is a listed finding are
//! swallowed (VERIF_FUZZ_STRICT=1 turns that off); anything else aborts, libFuzzer saves
//! the input, and `vcheck C23` replays it as {"target": .., "input": hex}.
#![no_main]

use libfuzzer_sys::fuzz_target;
use std::sync::OnceLock;

static TARGET: OnceLock<String> = OnceLock::new();

fuzz_target!(|data: &[u8]| {
    let target = TARGET.get_or_init(|| std::env::var("VERIF_FUZZ_TARGET").unwrap_or_else(|_| "record".into()));
    if data.len() > 40_000 {
        return;
    }
    vtargets::guard::fuzz_guard(
        "C23",
        |p| vtargets::guard::sig_c23(target, p),
        || {
            let r = if target == "dbfile" { vtargets::dbfile::run(data) } else { vtargets::dec::run(target, data) };
            r.violation
        },
    );
});
