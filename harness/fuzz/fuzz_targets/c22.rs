//! libFuzzer entry for C22. VERIF_FUZZ_TARGET = sql_bytes | sql_gen | api_seq.
#![no_main]

use libfuzzer_sys::fuzz_target;
use std::sync::OnceLock;

static TARGET: OnceLock<String> = OnceLock::new();

fuzz_target!(|data: &[u8]| {
    let target = TARGET.get_or_init(|| std::env::var("VERIF_FUZZ_TARGET").unwrap_or_else(|_| "sql_bytes".into()));
    if data.len() > 20_000 {
        return;
    }
    let deep = std::env::var("VERIF_FUZZ_DEEP").map(|v| v == "1").unwrap_or(false);
    vtargets::guard::fuzz_guard("C22", vtargets::guard::sig_c22, || vtargets::sqlrun::run(target, data, deep).violation);
});
