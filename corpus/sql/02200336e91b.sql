UPDATE orders SET status = promotions.new_status
                 FROM customers, promotions
                 WHERE orders.customer_id = customers.id
                   AND customers.tier = promotions.tier