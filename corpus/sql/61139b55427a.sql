CREATE TABLE employees (
                id INTEGER PRIMARY KEY,
                name TEXT NOT NULL,
                email TEXT UNIQUE,
                dept_id INTEGER REFERENCES departments(id) ON DELETE CASCADE ON UPDATE CASCADE,
                salary REAL CHECK(salary > 0)
            )