SELECT c.name as customer, o.status, o.total
             FROM orders o
             JOIN customers c ON o.customer_id = c.id
             WHERE o.id = 1