CREATE TABLE child_table (
                id INTEGER PRIMARY KEY,
                parent_id INTEGER REFERENCES parent_table(id)
            )