CREATE TABLE status_codes (
                id INTEGER PRIMARY KEY,
                code INTEGER CHECK(code >= 200 AND code <= 299 OR code >= 400 AND code <= 499)
            )