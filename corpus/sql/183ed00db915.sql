CREATE TABLE events (
                id INTEGER PRIMARY KEY AUTO_INCREMENT,
                name TEXT
            )