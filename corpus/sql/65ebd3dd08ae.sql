CREATE TABLE IF NOT EXISTS products (
    sku VARCHAR(50) PRIMARY KEY,
    name TEXT NOT NULL,
    price DECIMAL,
    embedding VECTOR(384)
)