SELECT u.name, totals.total_amount
                 FROM users AS u
                 JOIN (SELECT user_id, SUM(amount) AS total_amount FROM orders GROUP BY user_id) AS totals
                 ON u.id = totals.user_id
                 ORDER BY u.name