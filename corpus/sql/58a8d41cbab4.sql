CREATE TABLE users (
    id BIGINT PRIMARY KEY AUTO_INCREMENT,
    name VARCHAR(100) NOT NULL,
    email TEXT UNIQUE,
    age INT DEFAULT 0,
    metadata JSONB,
    created_at TIMESTAMP
)