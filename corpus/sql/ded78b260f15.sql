INSERT INTO order_items (order_id, product_id, quantity, unit_price)
             VALUES (1, 1, 2, 29.99)