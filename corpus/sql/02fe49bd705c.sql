PRAGMA page_size = 16384;
         PRAGMA journal_mode = DELETE;
         PRAGMA synchronous = OFF;
         PRAGMA mmap_size = 268435456;
         PRAGMA cache_size = -64000;
         PRAGMA temp_store = MEMORY;