SELECT u.name, SUM(o.amount) as total
                 FROM join_users u
                 JOIN join_orders o ON u.id = o.user_id
                 GROUP BY u.name