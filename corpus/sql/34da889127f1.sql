CREATE TABLE users (
                id INTEGER PRIMARY KEY AUTO_INCREMENT,
                username TEXT UNIQUE NOT NULL,
                email TEXT UNIQUE NOT NULL
            )