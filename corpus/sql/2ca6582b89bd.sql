CREATE TABLE customers (
                id INTEGER PRIMARY KEY AUTO_INCREMENT,
                email TEXT UNIQUE NOT NULL,
                name TEXT NOT NULL
            )