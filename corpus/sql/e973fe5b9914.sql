CREATE TABLE embeddings (
            id BIGINT PRIMARY KEY,
            name TEXT,
            vec VECTOR(4)
        )