CREATE TABLE orders (
                id INTEGER PRIMARY KEY,
                customer_id INTEGER,
                status TEXT,
                total REAL
            )