CREATE TABLE reviews (
                id INTEGER PRIMARY KEY,
                customer_id INTEGER REFERENCES customers(id) ON DELETE CASCADE ON UPDATE CASCADE,
                rating INTEGER
            )