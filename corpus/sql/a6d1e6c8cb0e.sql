CREATE TABLE check_test (
                id INTEGER PRIMARY KEY,
                age INTEGER CHECK (age >= 0 AND age <= 150)
            )