CREATE TABLE members (
                id INTEGER PRIMARY KEY,
                name TEXT,
                group_id INTEGER REFERENCES groups(id) ON DELETE CASCADE
            )