SELECT COUNT(*)
             FROM customers c
             INNER JOIN orders o ON c.id = o.customer_id