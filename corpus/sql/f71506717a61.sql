CREATE TABLE temperatures (
                id INTEGER PRIMARY KEY,
                temp REAL CHECK(temp >= -273.15)
            )