CREATE TABLE products (
                id INTEGER PRIMARY KEY,
                sku TEXT NOT NULL UNIQUE,
                name TEXT NOT NULL,
                category_id INTEGER REFERENCES categories(id) ON DELETE CASCADE,
                price REAL CHECK(price > 0),
                stock INTEGER CHECK(stock >= 0)
            )