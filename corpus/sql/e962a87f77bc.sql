SELECT id, name FROM employees
UNION
SELECT id, name FROM contractors