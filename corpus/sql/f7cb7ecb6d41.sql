CREATE TABLE orders (
                id INTEGER PRIMARY KEY,
                customer_id INTEGER REFERENCES customers(id) ON DELETE CASCADE ON UPDATE CASCADE,
                total REAL
            )