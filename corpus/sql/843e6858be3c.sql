SELECT
    name,
    department,
    salary,
    ROW_NUMBER() OVER (PARTITION BY department ORDER BY salary DESC) as rank,
    SUM(salary) OVER (PARTITION BY department) as dept_total,
    AVG(salary) OVER () as company_avg
FROM employees