CREATE TABLE orders (
            id BIGINT PRIMARY KEY,
            customer_id BIGINT,
            amount FLOAT,
            status TEXT
        )