CREATE TABLE products (
                id INTEGER PRIMARY KEY,
                name TEXT,
                category_id INTEGER REFERENCES categories(id)
            )