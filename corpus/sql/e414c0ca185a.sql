CREATE TABLE logs (
                id INTEGER PRIMARY KEY AUTO_INCREMENT,
                message TEXT
            )