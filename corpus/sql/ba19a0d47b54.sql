INSERT INTO documents (content, embedding)
VALUES ('Hello world', '[0.1, 0.2, 0.3, ...]')