CREATE TABLE test_data (
            id INTEGER PRIMARY KEY,
            name TEXT NOT NULL,
            value REAL NOT NULL,
            data BLOB
        )