CREATE TABLE mixed_case (
                id INTEGER PRIMARY KEY,
                age INTEGER CHECK(age >= 0 AnD age <= 150)
            )