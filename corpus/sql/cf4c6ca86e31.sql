UPDATE target SET value = source.value
                 FROM source
                 WHERE target.id = source.id