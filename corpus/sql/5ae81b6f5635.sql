CREATE TABLE products (
                id INTEGER PRIMARY KEY AUTO_INCREMENT,
                name TEXT NOT NULL,
                price REAL NOT NULL CHECK (price > 0),
                stock INTEGER NOT NULL DEFAULT 0 CHECK (stock >= 0)
            )