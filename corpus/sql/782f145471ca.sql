UPDATE employees AS e SET salary = salary + 10000
                 FROM departments AS d
                 WHERE e.dept_id = d.id AND d.name = 'Engineering'