UPDATE inventory SET quantity = quantity + restocks.add_quantity
                 FROM restocks
                 WHERE inventory.id = restocks.product_id
                 RETURNING id, name, quantity