CREATE TABLE accounts (
                id INTEGER PRIMARY KEY,
                balance REAL CHECK(balance >= 0)
            )