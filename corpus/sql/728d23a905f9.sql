CREATE TABLE tags (
                id INTEGER PRIMARY KEY AUTO_INCREMENT,
                name TEXT UNIQUE NOT NULL
            )