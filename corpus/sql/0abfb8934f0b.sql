SELECT u.*, (
    SELECT COUNT(*) FROM orders WHERE customer_id = u.id
) AS order_count
FROM users u