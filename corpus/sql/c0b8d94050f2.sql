CREATE TABLE products (
                id INTEGER PRIMARY KEY,
                sku TEXT NOT NULL,
                name TEXT,
                category TEXT,
                price REAL,
                stock INTEGER
            )