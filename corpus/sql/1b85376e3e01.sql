CREATE TABLE employees (
                id INTEGER PRIMARY KEY,
                dept_id INTEGER REFERENCES departments(id)
            )