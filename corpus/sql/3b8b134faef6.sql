CREATE TABLE indexed_table (
                id INTEGER PRIMARY KEY,
                email TEXT,
                status INTEGER
            )