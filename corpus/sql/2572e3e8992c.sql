CREATE TABLE employees (
                id INTEGER PRIMARY KEY,
                name TEXT,
                dept_id INTEGER REFERENCES departments(id) ON DELETE CASCADE
            )