CREATE TABLE wide (c1 INT, c2 INT, c3 INT, c4 INT, c5 INT,
             c6 INT, c7 INT, c8 INT, c9 INT, c10 INT)