CREATE TABLE data_types (
                id INTEGER PRIMARY KEY,
                int_col INTEGER,
                real_col REAL,
                text_col TEXT,
                bool_col BOOLEAN
            )