CREATE TABLE inventory (
                id INTEGER PRIMARY KEY,
                sku TEXT,
                quantity INTEGER
            )