SELECT COUNT(*) as cnt, SUM(value) as sum_val,
                        MIN(value) as min_val, MAX(value) as max_val
                 FROM agg_test