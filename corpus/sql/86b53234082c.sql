SELECT u.name, o.total
FROM users u
JOIN orders o ON u.id = o.customer_id