SELECT c.id, c.name, o.id, o.amount
             FROM customers c
             INNER JOIN orders o ON c.id = o.customer_id
             ORDER BY c.id, o.id