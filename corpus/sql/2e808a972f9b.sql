SELECT c.id, c.name, o.id, o.amount
             FROM customers c
             FULL OUTER JOIN orders o ON c.id = o.customer_id