INSERT INTO conflict_update (id, counter) VALUES (1, 1)
             ON CONFLICT (id) DO UPDATE SET counter = counter + 1