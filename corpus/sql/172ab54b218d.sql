INSERT INTO posts (author_id, title, content, published)
             VALUES (2, 'Janes Post', 'Content here', TRUE)