INSERT INTO data_types (id, int_col, real_col, text_col, bool_col)
             VALUES (1, 42, 1.23, 'Hello, World!', TRUE)