SELECT p.title, COUNT(c.id) as comment_count
             FROM posts p
             LEFT JOIN comments c ON p.id = c.post_id
             GROUP BY p.id, p.title
             ORDER BY comment_count DESC