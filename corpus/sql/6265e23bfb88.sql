CREATE TABLE dataset_versions (
          id BIGINT PRIMARY KEY,
          dataset_id BIGINT,
          datasource_version_id BIGINT,
          creator_user_id BIGINT,
          license_name VARCHAR(100),
          creation_date VARCHAR(20),
          version_number FLOAT,
          title VARCHAR(300),
          slug VARCHAR(100),
          subtitle TEXT,
          total_compressed_bytes FLOAT,
          total_uncompressed_bytes FLOAT
        )