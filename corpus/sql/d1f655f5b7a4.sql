CREATE TABLE bookings (
                id INTEGER PRIMARY KEY,
                room_id INTEGER,
                date TEXT,
                UNIQUE (room_id, date)
            )