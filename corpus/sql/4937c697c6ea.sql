CREATE TABLE post_tags (
                post_id INTEGER REFERENCES posts(id),
                tag_id INTEGER REFERENCES tags(id),
                PRIMARY KEY (post_id, tag_id)
            )