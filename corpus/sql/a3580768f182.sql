INSERT INTO posts (author_id, title, content, published)
             VALUES (1, 'First Post', 'Hello World!', TRUE)