CREATE TABLE persons (
                id INTEGER PRIMARY KEY,
                name TEXT,
                age INTEGER CHECK(age >= 0)
            )