INSERT INTO posts (author_id, title, content, published)
             VALUES (1, 'Draft Post', 'Work in progress', FALSE)