CREATE TABLE categories (
                id INTEGER PRIMARY KEY,
                name TEXT NOT NULL UNIQUE,
                description TEXT
            )