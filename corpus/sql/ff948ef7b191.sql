SELECT e.name as employee, m.name as manager
             FROM employees e
             INNER JOIN employees m ON e.manager_id = m.id
             ORDER BY e.id