CREATE TABLE posts (
                id INTEGER PRIMARY KEY AUTO_INCREMENT,
                author_id INTEGER NOT NULL REFERENCES users(id),
                title TEXT NOT NULL,
                content TEXT,
                published BOOLEAN DEFAULT FALSE,
                view_count INTEGER DEFAULT 0
            )