SELECT id, content
FROM documents
ORDER BY embedding <-> '[0.15, 0.25, 0.35, ...]'
LIMIT 10