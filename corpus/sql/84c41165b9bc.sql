CREATE TABLE configs (
                id INTEGER PRIMARY KEY,
                setting TEXT,
                value TEXT DEFAULT 'default_value'
            )