UPDATE orders SET total = (
                SELECT SUM(quantity * unit_price) FROM order_items WHERE order_id = 1
            ) WHERE id = 1