CREATE TABLE members (
                id INTEGER PRIMARY KEY,
                name TEXT,
                team_id INTEGER REFERENCES teams(id)
            )