SELECT category, SUM(amount) as total FROM group_test
                 GROUP BY category HAVING SUM(amount) > 250