SELECT * FROM users WHERE id IN (
    SELECT customer_id FROM orders WHERE total > 1000
)