CREATE TABLE reservations (
                id INTEGER PRIMARY KEY,
                user_id INTEGER,
                resource_id INTEGER,
                date TEXT,
                UNIQUE (user_id, resource_id)
            )