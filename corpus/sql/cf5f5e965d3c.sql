SELECT c.id AS comp_id, e.id AS epis_id
             FROM competitions c
             LEFT JOIN episodes e ON e.competition_id = c.id
             ORDER BY c.id, e.id