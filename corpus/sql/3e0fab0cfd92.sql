CREATE TABLE order_items (
                order_id INTEGER,
                product_id INTEGER,
                quantity INTEGER NOT NULL,
                PRIMARY KEY (order_id, product_id)
            )