CREATE TABLE deep_nesting (
                id INTEGER PRIMARY KEY,
                age INTEGER CHECK(1)
            )