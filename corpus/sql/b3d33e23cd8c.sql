CREATE TABLE nested_check (
                id INTEGER PRIMARY KEY,
                age INTEGER CHECK((((age >= 0))))
            )