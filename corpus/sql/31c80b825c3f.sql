CREATE TABLE default_test (
                id INTEGER PRIMARY KEY,
                name TEXT,
                status INTEGER DEFAULT 0
            )