CREATE TABLE comments (
                id INTEGER PRIMARY KEY AUTO_INCREMENT,
                post_id INTEGER NOT NULL REFERENCES posts(id),
                author_id INTEGER NOT NULL REFERENCES users(id),
                content TEXT NOT NULL
            )