CREATE TABLE departments (
                id INTEGER PRIMARY KEY,
                name TEXT NOT NULL UNIQUE,
                budget REAL CHECK(budget >= 0)
            )