CREATE TABLE assignments (
                teacher_id INTEGER,
                class_id INTEGER,
                subject TEXT,
                PRIMARY KEY (teacher_id, class_id)
            )