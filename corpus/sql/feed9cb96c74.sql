SELECT id FROM active_users
INTERSECT
SELECT id FROM premium_users