CREATE TABLE subscriptions (
                user_id INTEGER,
                product_id INTEGER,
                created_at TEXT,
                PRIMARY KEY (user_id, product_id)
            )