CREATE TABLE all_types (
                id INTEGER PRIMARY KEY,
                name TEXT NOT NULL,
                age INTEGER,
                salary REAL,
                is_active BOOLEAN,
                data BLOB,
                created_at TIMESTAMP,
                unique_code TEXT UNIQUE
            )