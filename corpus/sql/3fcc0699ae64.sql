SELECT id FROM all_users
EXCEPT
SELECT id FROM banned_users