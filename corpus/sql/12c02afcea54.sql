CREATE TABLE ratios (
                id INTEGER PRIMARY KEY,
                ratio REAL CHECK(ratio >= 0.0 AND ratio <= 1.0)
            )