SELECT category, COUNT(*) as cnt
                 FROM items
                 GROUP BY category
                 HAVING COUNT(*) >= 2