SELECT u.name, COUNT(o.id) AS order_count
FROM users u
LEFT JOIN orders o ON u.id = o.customer_id
GROUP BY u.id, u.name