SELECT p.title, u.username as author
             FROM posts p
             JOIN users u ON p.author_id = u.id
             WHERE p.published = TRUE
             ORDER BY p.id