SELECT c.id, c.name, COUNT(*) as order_count, SUM(o.amount) as total
             FROM customers c
             INNER JOIN orders o ON c.id = o.customer_id
             GROUP BY c.id, c.name
             ORDER BY c.id