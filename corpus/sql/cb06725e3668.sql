CREATE TABLE documents (
    id BIGINT PRIMARY KEY AUTO_INCREMENT,
    content TEXT,
    embedding VECTOR(384)
)