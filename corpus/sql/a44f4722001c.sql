SELECT * FROM users u WHERE EXISTS (
    SELECT 1 FROM orders WHERE customer_id = u.id
)