INSERT INTO order_items (order_id, product_id, quantity, unit_price)
             VALUES (1, 2, 1, 49.99)