UPDATE products SET price = price_updates.new_price
                 FROM price_updates
                 WHERE products.id = price_updates.product_id