CREATE TABLE products (
                id INTEGER PRIMARY KEY,
                category_id INTEGER REFERENCES categories(id) ON UPDATE RESTRICT
            )