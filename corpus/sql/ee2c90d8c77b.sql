CREATE TABLE customers (
            id BIGINT PRIMARY KEY,
            name TEXT,
            city TEXT
        )