CREATE TABLE employees (
            id BIGINT PRIMARY KEY,
            name TEXT,
            manager_id BIGINT
        )