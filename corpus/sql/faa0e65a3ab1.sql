SELECT u.name, p.name AS product, oi.quantity
FROM users u
JOIN orders o ON u.id = o.customer_id
JOIN order_items oi ON o.id = oi.order_id
JOIN products p ON oi.product_id = p.id