UPDATE summary SET
                min_val = (SELECT MIN(value) FROM data_points),
                max_val = (SELECT MAX(value) FROM data_points),
                sum_val = (SELECT SUM(value) FROM data_points)
             WHERE id = 1