INSERT INTO users (name, email) VALUES
    ('Carol', 'carol@example.com'),
    ('Dave', 'dave@example.com'),
    ('Eve', 'eve@example.com')