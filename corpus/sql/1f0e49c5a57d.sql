CREATE TABLE projects (
                id INTEGER PRIMARY KEY,
                name TEXT NOT NULL,
                lead_id INTEGER REFERENCES employees(id) ON DELETE SET NULL ON UPDATE CASCADE,
                budget REAL
            )