CREATE TABLE order_items (
                id INTEGER PRIMARY KEY AUTO_INCREMENT,
                order_id INTEGER NOT NULL REFERENCES orders(id),
                product_id INTEGER NOT NULL REFERENCES products(id),
                quantity INTEGER NOT NULL CHECK (quantity > 0),
                unit_price REAL NOT NULL
            )