PRAGMA journal_mode = OFF;
        PRAGMA synchronous = OFF;
        PRAGMA cache_size = -64000;
        PRAGMA temp_store = MEMORY;
        PRAGMA locking_mode = EXCLUSIVE;
        PRAGMA mmap_size = 268435456;
        CREATE TABLE dataset_versions (
            id INTEGER PRIMARY KEY,
            dataset_id INTEGER,
            datasource_version_id INTEGER,
            creator_user_id INTEGER,
            license_name TEXT,
            creation_date TEXT,
            version_number REAL,
            title TEXT,
            slug TEXT,
            subtitle TEXT,
            total_compressed_bytes REAL,
            total_uncompressed_bytes REAL
        );