SELECT
    status,
    COUNT(*) AS count,
    SUM(total) AS revenue,
    AVG(total) AS avg_order
FROM orders
GROUP BY status
HAVING COUNT(*) > 10