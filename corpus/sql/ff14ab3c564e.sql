CREATE TABLE orders (
                id INTEGER PRIMARY KEY AUTO_INCREMENT,
                customer_id INTEGER NOT NULL REFERENCES customers(id),
                status TEXT NOT NULL DEFAULT 'pending',
                total REAL NOT NULL DEFAULT 0
            )