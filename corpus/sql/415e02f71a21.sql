CREATE TABLE settings (
                id INTEGER PRIMARY KEY,
                value INTEGER DEFAULT 42
            )