INSERT INTO group_test VALUES
             (1, 'A', 100), (2, 'A', 150), (3, 'B', 200),
             (4, 'B', 50), (5, 'C', 300)