SELECT p.title
             FROM posts p
             JOIN post_tags pt ON p.id = pt.post_id
             JOIN tags t ON pt.tag_id = t.id
             WHERE t.name = 'rust'