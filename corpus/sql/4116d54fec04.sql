SELECT c.id, c.name, o.id, o.amount
             FROM customers c
             RIGHT JOIN orders o ON c.id = o.customer_id
             ORDER BY o.id