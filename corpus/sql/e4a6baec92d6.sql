SELECT p.id, p.category, i.warehouse, i.quantity
             FROM products p
             INNER JOIN inventory i ON p.id = i.product_id
             WHERE p.category = 'electronics'
             ORDER BY p.id, i.warehouse