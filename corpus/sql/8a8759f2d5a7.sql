INSERT INTO items VALUES
             (1, 'A', 10), (2, 'A', 20),
             (3, 'B', 30), (4, 'B', 40),
             (5, 'C', 50)