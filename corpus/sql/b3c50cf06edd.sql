CREATE TABLE scores (
                id INTEGER PRIMARY KEY,
                value INTEGER CHECK(value >= 0 AND value <= 100)
            )