#!/bin/bash
# tools/rmws.sh <name>: remove the scratch workspace and its worktree
N=$1; W=/tmp/wa_$N
git -C /repo worktree remove --force $W/repo 2>/dev/null
rm -rf $W
git -C /repo worktree prune
