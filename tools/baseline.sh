#!/bin/bash
# Runs the repository's pinned baseline (guard OFF: no --cfg kahflane_turdb_verif) and checks
# that every test in BASELINE.json's stable_pass list passes. exit 0 iff all pass.
R=${BASELINE_REPO:-/repo}
cd "$R" || exit 2
unset RUSTFLAGS
export CARGO_NET_OFFLINE=true RUST_BACKTRACE=0
cargo nextest run --workspace --no-fail-fast --tool-config-file pb:/verif/tools/nextest.toml --profile pb --test-threads 8 --offline >/tmp/baseline.$$.log 2>&1
J=${CARGO_TARGET_DIR:-$R/target}/nextest/pb/junit.xml
python3 - "$J" <<'PY'
import json, sys, xml.etree.ElementTree as ET
base = json.load(open('/root/.vp/BASELINE.json'))
want = set(base['stable_pass'])
t = ET.parse(sys.argv[1])
ok = set()
for ts in t.getroot().iter('testsuite'):
    for tc in ts.iter('testcase'):
        name = f"{tc.get('classname')}::{tc.get('name')}" if not tc.get('name','').startswith(tc.get('classname','')+'::') else tc.get('name')
        failed = any(c.tag in ('failure','error') for c in tc)
        if not failed:
            ok.add(name); ok.add(tc.get('name')); ok.add(f"{ts.get('name')}::{tc.get('name')}")
missing = sorted(w for w in want if w not in ok)
print(f"baseline: {len(want)-len(missing)}/{len(want)} stable tests pass")
for m in missing[:40]: print("  NOT PASSING:", m)
sys.exit(1 if missing else 0)
PY
rc=$?
rm -f /tmp/baseline.$$.log
exit $rc
