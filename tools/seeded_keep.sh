#!/bin/bash
# tools/seeded_keep.sh <ID>: copies a confirmed seeded change from /tmp/mut/<ID> to /verif/seeded/<ID>/
ID=$1; S=/tmp/mut/$ID; D=/verif/seeded/$ID
python3 -c "import json,sys;d=json.load(open('$S/confirm.json'));sys.exit(0 if d.get('confirmed') else 1)" || { echo "$ID not confirmed"; exit 1; }
mkdir -p $D/demo
cp $S/patch.diff $D/; cp $S/meta.json $D/meta_agent.json; cp $S/demo/*.rs $S/demo/README.txt $D/demo/ 2>/dev/null
cp $S/confirm.json $D/confirm.json
echo kept $ID
