#!/usr/bin/env python3
"""Regenerates /verif/MANIFEST.json from the table below (one entry per built check)."""
import json, os, sys
ROOT = os.path.dirname(os.path.dirname(os.path.abspath(__file__)))

# id -> (level category, technique, level text, level note, design ref)
BUILT = {
 "C05": ("exploration", "proptest stateful SQL histories vs a relational reference model (results + full observation after every statement)",
         "Generated schemas and INSERT/UPDATE/DELETE/TRUNCATE histories; after every statement the affected-row count, RETURNING rows, SELECT * multiset, COUNT(*) and index probes are compared with an in-harness relational model; listed findings are excluded from generation by their trigger tags (gates) and demonstrated by witness replays.",
         "The model implements the unambiguous core of SQL DML (3-valued WHERE, end-of-statement constraint checking; statements whose verdict depends on checking order are not generated). Generator features named by open findings are switched off; their count is in the evidence.", "4 C05"),
 "C26": ("exploration", "proptest pairs of composite keys vs an independent value order (order-preservation, injectivity, decode round-trip)",
         "Generated pairs of 1..3-column keys over every encodable type, half of them one nudge apart so encodings share long prefixes; memcmp order must equal the documented value order, equal keys only for equal values, decode_key must invert and consume all bytes.",
         "The value order is the one written in the module documentation of src/encoding/key.rs; pairs the documentation does not order are only checked for injectivity. OwnedValue->key conversion inside Database is covered by the SQL-level index checks (C10), not here.", "4 C26"),
 "C30": ("exploration", "proptest sorted key sets vs plain binary search (differential) + bracket containment for AVX2 and scalar narrowing",
         "Generated well-formed leaf pages (0..400 keys with heavy 4-byte-prefix ties, short keys, high-bit prefixes); every key, its neighbours and generated probes are looked up and compared with a plain binary search; both prefix-narrowing variants must return a bracket containing the probe's prefix class.",
         "Pages are built with LeafNodeMut::insert_at_end; the NEON variant cannot be compiled on this x86_64 sandbox.", "4 C30"),
 "C27": ("exploration", "exhaustive enumeration + proptest generated values/byte strings vs an independent format specification",
         "Every value with a 1..4-byte encoding is enumerated (quick), the 5-byte class too (thorough); the 9-byte class and byte strings are covered by boundary patterns and generated cases. Round-trip, canonical length, bounds (consumed <= len) and agreement with a reference decoder are checked for each.",
         "The 9-byte class is sampled, not exhausted; the reference decoder in the harness is written from the format description.", "4 C27"),
}

def main():
    props = [json.loads(l) for l in open(os.path.join(ROOT, "properties.jsonl"))]
    hooks_commits = []
    hc = os.path.join(ROOT, "HOOK_COMMITS.txt")
    if os.path.exists(hc):
        hooks_commits = [l.split()[0] for l in open(hc) if l.strip() and not l.startswith("#")]
    checks, na = [], []
    for p in props:
        pid = p["id"]
        if pid in BUILT:
            cat, tech, text, note, ref = BUILT[pid]
            checks.append({
                "property_id": pid,
                "quick_cmd": f"./run {pid} quick",
                "thorough_cmd": f"./run {pid} thorough",
                "evidence_file": f"/verif/evidence/{pid}.json",
                "replay_cmd_template": f"./run {pid} --replay {{path}}",
                "engine": "harness",
                "level_claimed": {"category": cat, "text": text, "design_ref": f"DESIGN.md §{ref}"},
                "level_note": note,
                "technique": tech,
            })
        else:
            na.append({"property_id": pid, "reason": "check not built yet in this round (planned in DESIGN.md §4); not claimed until it runs"})
    m = {
        "version": 1,
        "setup_cmd": "./run setup",
        "hooks": {
            "guard": "kahflane_turdb_verif",
            "enable": "RUSTFLAGS=--cfg kahflane_turdb_verif (set in /verif/harness/.cargo/config.toml; every check builds /repo as a path dependency with it)",
            "baseline_off_cmd": "/verif/tools/baseline.sh",
            "source_commits": hooks_commits,
            "add_only": True,
        },
        "engines": [
            {"name": "harness", "path": "/verif/harness", "serves_properties": sorted(BUILT), "kind_free_text": "cargo workspace: vcore (driver, findings, evidence), vcheck (proptest/model checks), vsched (shuttle schedules), vcrash (crash-point enumeration), fuzz (libFuzzer)"},
        ],
        "checks": checks,
        "not_applicable": na,
        "notes": "Technique family: property-based testing and fuzzing. Exit codes: 0 held (KNOWN-FINDING lines possible), 1 VIOLATION, 2 inconclusive/infrastructure. Known findings: /verif/KNOWN_FINDINGS.txt.",
    }
    json.dump(m, open(os.path.join(ROOT, "MANIFEST.json"), "w"), indent=1)
    print(f"{len(checks)} checks, {len(na)} not applicable")

if __name__ == "__main__":
    main()
