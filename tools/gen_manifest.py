#!/usr/bin/env python3
"""Regenerates /verif/MANIFEST.json from the table below (one entry per built check)."""
import json, os, sys
ROOT = os.path.dirname(os.path.dirname(os.path.abspath(__file__)))

# id -> (level category, technique, level text, level note, design ref)
BUILT = {
 "C27": ("exploration", "exhaustive enumeration + proptest generated values/byte strings vs an independent format specification",
         "Every value with a 1..4-byte encoding is enumerated (quick), the 5-byte class too (thorough); the 9-byte class and byte strings are covered by boundary patterns and generated cases. Round-trip, canonical length, bounds (consumed <= len) and agreement with a reference decoder are checked for each.",
         "The 9-byte class is sampled, not exhausted; the reference decoder in the harness is written from the format description.", "4 C27"),
}

def main():
    props = [json.loads(l) for l in open(os.path.join(ROOT, "properties.jsonl"))]
    hooks_commits = []
    hc = os.path.join(ROOT, "HOOK_COMMITS.txt")
    if os.path.exists(hc):
        hooks_commits = [l.split()[0] for l in open(hc) if l.strip() and not l.startswith("#")]
    checks, na = [], []
    for p in props:
        pid = p["id"]
        if pid in BUILT:
            cat, tech, text, note, ref = BUILT[pid]
            checks.append({
                "property_id": pid,
                "quick_cmd": f"./run {pid} quick",
                "thorough_cmd": f"./run {pid} thorough",
                "evidence_file": f"/verif/evidence/{pid}.json",
                "replay_cmd_template": f"./run {pid} --replay {{path}}",
                "engine": "harness",
                "level_claimed": {"category": cat, "text": text, "design_ref": f"DESIGN.md §{ref}"},
                "level_note": note,
                "technique": tech,
            })
        else:
            na.append({"property_id": pid, "reason": "check not built yet in this round (planned in DESIGN.md §4); not claimed until it runs"})
    m = {
        "version": 1,
        "setup_cmd": "./run setup",
        "hooks": {
            "guard": "kahflane_turdb_verif",
            "enable": "RUSTFLAGS=--cfg kahflane_turdb_verif (set in /verif/harness/.cargo/config.toml; every check builds /repo as a path dependency with it)",
            "baseline_off_cmd": "cd /repo && cargo nextest run --workspace --no-fail-fast --test-threads 8 --offline || cargo test --workspace --no-fail-fast --offline",
            "source_commits": hooks_commits,
            "add_only": True,
        },
        "engines": [
            {"name": "harness", "path": "/verif/harness", "serves_properties": sorted(BUILT), "kind_free_text": "cargo workspace: vcore (driver, findings, evidence), vcheck (proptest/model checks), vsched (shuttle schedules), vcrash (crash-point enumeration), fuzz (libFuzzer)"},
        ],
        "checks": checks,
        "not_applicable": na,
        "notes": "Technique family: property-based testing and fuzzing. Exit codes: 0 held (KNOWN-FINDING lines possible), 1 VIOLATION, 2 inconclusive/infrastructure. Known findings: /verif/KNOWN_FINDINGS.txt.",
    }
    json.dump(m, open(os.path.join(ROOT, "MANIFEST.json"), "w"), indent=1)
    print(f"{len(checks)} checks, {len(na)} not applicable")

if __name__ == "__main__":
    main()
