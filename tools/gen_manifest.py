#!/usr/bin/env python3
"""Regenerates /verif/MANIFEST.json from the table below (one entry per built check)."""
import json, os, sys
ROOT = os.path.dirname(os.path.dirname(os.path.abspath(__file__)))

# id -> (level category, technique, level text, level note, design ref)
BUILT = {
 "C38": ("exploration", "proptest statement lists executed by 1-3 cloned handles on real threads in a child process; recovered state vs live state at quiescence (kill and power-loss models)",
         "Generated per-round statements (inserts, updates, deletes, two-statement transactions, near-TOAST values) committed concurrently on shared pages with wal=ON, synchronous=FULL; after the last commit the child dumps the live observation and exits without closing; the reopened directory (WAL replayed over the files) must equal the live observation, i.e. every page ends with its latest committed image and every touched page is covered by the log.",
         "Real threads: the interleaving is not owned, so ordering races are found only probabilistically (overlap is measured and reported); a single-thread variant makes the coverage half of the property deterministic. A verdict must reproduce twice. Power-loss model is a listed finding.", "4 C38"),
 "C23": ("fault_enumeration", "proptest mutation of valid encodings per decoder + byte-level corruption of the files of a real database, in child processes; libFuzzer campaigns (ASan) in the thorough tier",
         "20 decoder targets (record + extract_row under generated schemas, index key, varint, JSONB, array, composite, catalog bytes and file, WAL segment incl. frames with a matching checksum over a damaged header, table/index/meta/HNSW file headers, HNSW page, page header, leaf, interior, a cursor walk over a tree with one corrupted page, TOAST pointer, spill rows): valid encodings from the public encoders or from the files of a database built through SQL, then bit flips, truncation, insert/delete/splice and length-field edits biased to header bytes, plus raw bytes. File corruption: a multi-table database (indexes, JSONB, TOAST values, HNSW index, deletes; a cleanly closed image and a crash image with a live WAL) gets 1..8 edits biased to file headers, page headers, slot arrays and cell areas or a truncation, then is opened and every scan / index probe runs. Each call must return a value or Err.",
         "Signature = decoder (source file) + enclosing function + message class; 20 unchecked accessors of JsonbView / ArrayView / CompositeView / HNSW pages, the TOAST total_size allocation and two non-termination defects (cyclic leaf chain, cyclic child pointer) are listed findings. A hang is exit 2 unless it is the listed one. Six bounds-check repairs were applied as fix commits.", "4 C23"),
 "C22": ("exploration", "proptest + corpus replay in child processes (panic capture, abort/stack-overflow/allocation-failure detection, hang watchdog); libFuzzer campaigns in the thorough tier",
         "Every SQL literal harvested from the repository's tests/examples/README is replayed, then generated cases: mutated corpus statements, grammar-generated statements of the dialect (SELECT with expressions, ~100 functions, joins, subqueries, CTEs, set operations; DML with RETURNING / ON CONFLICT; DDL; PRAGMA with odd values; transaction control) with token-level mutations and extreme literals, and API call sequences (open again, clone, prepare/bind with any arity, batch inserts with ragged rows, pragmas, close, use after close, drop without close), each against a private copy of a template database through prepare / bind / execute / execute_with_params / query. Every call must return Ok or Err.",
         "Cases run in child processes (RLIMIT_AS 4 GiB, 8 MiB stack). Listed panics are tolerated by signature; the generator feature deep_nesting (thousands of nesting levels / gigabyte-sized results) is excluded while the stack-overflow and unbounded-allocation findings are open. A hang is exit 2, not a violation.", "4 C22"),
 "C35": ("exploration", "proptest-generated multi-thread programs x shuttle schedule exploration of the tree's own cache.rs + budget.rs; harness-owned pin counts and last-written values",
         "Generated programs of 2-3 threads x 2-6 operations (get_or_insert with a loader that may fail, get, write/read through a PageRef, unpin) on caches with 1-3 entries per shard, four keys colliding in one shard, with and without a nearly full MemoryBudget; the loader running for a key the harness still pins = pinned page evicted, every read through a live PageRef must return the last value for its key, shard size <= capacity after every insert, no pins and a zero cache pool after clear() at quiescence.",
         "clear() and evict_all_unpinned are not run concurrently with the other operations (the property lists get/insert/write/unpin).", "4 C35"),
 "C37": ("exploration", "proptest-generated committer programs x shuttle schedule exploration of the tree's own group_commit.rs driven through a transcription of execute_small_commit's protocol; harness-owned log",
         "Generated programs of 2-3 committer threads x 1-2 (thorough: 3) commits with generator-injected flush failures; every commit runs submit_and_wait/take_pending/flush/complete_batch|fail_batch as the database does; a commit returning Ok must be durable in the harness log exactly once at that moment, commits of failed batches must return Err, no deadlock (untimed condvar waits make a lost wakeup a deadlock), queue empty and flush flag clear at the end.",
         "The caller protocol is transcribed by hand; build.rs fingerprints the code in transaction.rs and the check exits 2 if it changes. Default queue config only (as Database uses).", "4 C37"),
 "C39": ("exploration", "proptest-generated multi-thread programs x shuttle schedule exploration of the tree's own budget.rs; harness-side sums as oracle",
         "Generated programs of 2-3 threads x 2-6 allocate/try_allocate/release operations over the five pools of a 4 MiB budget with 0.5-3 MiB requests; after every successful allocation the harness's own sum of granted-and-unreleased bytes must not exceed total_limit, at quiescence each pool counter equals successful allocations minus releases and everything returns to zero.",
         "The limit is judged on a harness-side lower bound of the tracked usage (total_used() itself is a non-atomic five-load sum); spurious allocation failures are not judged.", "4 C39"),
 "C36": ("exploration", "proptest-generated multi-thread programs x shuttle schedule exploration (PCT depth 2-5 + uniform random) of the tree's own page_locks.rs compiled against shuttle primitives; harness-owned occupancy counters",
         "Generated programs of 2-3 threads x 2-6 lock acquisitions (table intent S/X, page_read, page_write, page_write_multi on 5 pages of 2 tables, hierarchy-respecting order) run under 200 (quick) / 800 (thorough) controlled schedules each; per-page writer/reader occupancy counters owned by the harness are checked at every acquisition and after every hold, shuttle's deadlock detection covers 'every acquisition eventually succeeds', and the lock tables must be empty at quiescence.",
         "Bounded preemption (PCT) and random scheduling, not exhaustive; shuttle models every atomic as SeqCst; parking_lot is replaced by the plshim crate (RwLock without writer preference).", "4 C36"),
 "C01": ("fault_enumeration", "crash-point enumeration (hook-numbered points, child ended with _exit) x kill and power-loss models, recovered state vs an uncrashed reference run",
         "Generated workloads (DDL, DML on indexed tables, transactions, checkpoints) under wal=ON, synchronous=FULL; every page mutation, file create/grow/remove/rename, WAL frame/flush/sync/truncate/rotate, catalog and meta write/sync is a numbered crash point (quick: stratified sample, thorough: every point); after the crash the directory is reopened as left (kill) and cut back to last-synced bytes per file (power loss); the observation must contain every acknowledged statement.",
         "Expected states come from a reference run of TurDB itself. Power-loss model per file with durable metadata operations; no torn sectors. A verdict must reproduce twice. The power-loss model is a listed finding in its entirety (witnessed); the kill model remains armed. Needs hook H1.", "4 C01"),
 "C02": ("fault_enumeration", "crash-point enumeration x kill/power models x synchronous modes; prefix-consistency against reference states; automatic vs streaming recovery compared",
         "Same engine as C01 with synchronous OFF/NORMAL/FULL: reopening must succeed, every scan and index probe must work, and the observation must equal a statement-boundary state of the reference run (acknowledged prefix, or that plus the whole in-flight statement/transaction); for the kill model the degraded-mode PRAGMA recover_wal path (hook H3) runs on a copy of the same crashed directory and must give the same observation as automatic recovery.",
         "Partial statements after a kill (no undo logging) and the power-loss model are listed findings (witnessed); open failures, recovery crashes and differences between the two recovery paths remain armed. Needs hooks H1, H3.", "4 C02"),
 "C40": ("fault_enumeration", "crash-point enumeration restricted to catalog/meta/file-set rewrites during DDL, kill and power-loss models",
         "DDL-heavy generated workloads; crash points of kind catalog_*, meta_*, file_create/remove/rename; after the crash the database must open and every table and index that existed before the interrupted DDL statement must still be there with its rows (reference observation at the previous or next statement boundary).",
         "The catalog round-trip through save/load is exercised through the SQL-visible schema (reopen after every DDL in C21/C04) rather than through the private serializer API. Power-loss model is a listed finding. Needs hook H1.", "4 C40"),
 "C08": ("exploration", "proptest statement-level interleavings over cloned handles vs a snapshot-isolation model (anomalies classified)",
         "Generated interleavings of 2-3 cloned handles (autocommit statements and explicit transactions; point writes, full and point reads; WAL on/off) issued from one thread so the schedule is owned; a snapshot-isolation model predicts every read and which COMMITs may succeed; each divergence is classified as dirty read / non-repeatable read / phantom / lost update / own write invisible / other.",
         "The five classic anomaly classes are listed findings (TurDB has no isolation between handles) and are tolerated by signature; any other divergence (a value never written, a failing COMMIT/ROLLBACK without conflict) is a violation. Real-thread races are out of reach (schedule not owned).", "4 C08"),
 "C13": ("exploration", "proptest statement templates x parameter values x parameter routes, differential against the harness's own literal rendering on a twin database",
         "17 templates (SELECT/INSERT/UPDATE/DELETE; anonymous and positional placeholders, one directly after '-', IN lists, LIMIT) x values (negative and extreme ints, exponent floats, NULL, text with quotes, comment markers, semicolons, backslashes, injection strings) x routes (execute_with_params, prepared execute once/twice = cached plan, BoundStatement::query); results and table contents (incl. a bystander table) must equal the literal twin's.",
         "Routes/statement kinds named by the listed findings are gated (parameters in WHERE for SELECT/DELETE through execute paths, cached-plan second runs); INSERT/UPDATE parameters and the text-substitution route remain in the generated search.", "4 C13"),
 "C11": ("exploration", "proptest (type, value, write path, read point) round trip through SQL",
         "Generated values of every column type the SQL layer accepts (integer extremes, NaN/inf/+-0/subnormals, text and blobs from empty through the TOAST threshold and chunk sizes to MBs, UTF-8-valid blobs, Unicode, DATE/TIME/TIMESTAMP over years 1..9999, UUID, JSONB, VECTOR), written by INSERT or UPDATE as literal or bound parameter, must read back with the same type and value right after the write and after reopen.",
         "Floats compared bitwise (any NaN for NaN), JSON by value. A 17-byte BLOB starting 0xFE is never executed in-process (aborts the process; listed under C31).", "4 C11"),
 "C42": ("exploration", "proptest SQL histories run under several PRAGMA configurations (differential against a reference configuration)",
         "One generated history (DDL, DML, transactions, checkpoint/reopen) runs on a reference database and on 2-3 databases under generated combinations of wal, synchronous, wal_autoflush, wal_checkpoint_threshold (tiny = auto-checkpoint every few statements) and with more table/index files than the open-file cache holds; every statement result and the full observation must be identical.",
         "Whether an auto-checkpoint really fired is not observable through the API; the tiny threshold makes it very likely. Inherits the shared DML/rollback/DDL gates.", "4 C42"),
 "C43": ("exploration", "proptest histories with bulk-API loads on one database and row-at-a-time INSERTs on its twin (differential)",
         "Generated single-table schemas and histories where every full-row INSERT goes through insert_batch / insert_batch_into_schema / bulk_insert / a prepared INSERT executed per row (cached-plan path) on one database and as single INSERT statements on the twin, interleaved with DML; valid batches must leave equal observations, counts and next AUTO_INCREMENT value, batches with a violating row must be refused.",
         "Three of the four APIs are listed findings in their entirety (gated, witnessed); the generated search continues on the prepared/cached-plan path for unindexed tables and on everything around it.", "4 C43"),
 "C10": ("exploration", "proptest SQL histories applied to an indexed database and its index-free twin (differential), queries compared after every statement",
         "One generated history (any key order, wide keys, deletes, updates of indexed columns, rollbacks, CREATE/DROP INDEX mid-history) runs on a database with PRIMARY KEY/UNIQUE/secondary/composite indexes and on a twin without any; point, range, IN, prefix, IS NULL, ORDER BY+LIMIT queries on indexed columns, the full scan and COUNT(*) must agree after every statement; EXPLAIN is sampled to confirm index plans are used.",
         "A statement runs on the twin only if the indexed database accepted it. Inherits the shared DML/rollback/DDL gates (listed findings) so that a divergence can only be something unlisted.", "4 C10"),
 "C34": ("exploration", "proptest release/allocate/drain/reopen histories vs an ownership model of pages",
         "Generated freelist histories over a sparse in-memory storage, from 1..8 pages up to 13000 pages crossing 2-3 trunk pages; every allocated page must have been released and not be allocated, no page is handed out twice, and free_count equals what a drain actually returns.",
         "The storage is an in-memory implementation of the Storage trait with a real TableFileHeader on page 0.", "4 C34"),
 "C24": ("exploration", "proptest vector pairs vs the f64 scalar definition with a derived rounding bound; SQL ORDER BY <->/<=> validity predicate",
         "Every public distance kernel (and the AVX2 kernels directly) on generated pairs for all dimensions 1..70 (plus 127/128/129/1024 in thorough); SQL tables of 1..200 vectors ordered by L2 / cosine distance with and without LIMIT must be non-decreasing in exact distance and return the k nearest.",
         "Tolerance = (n+4)*eps_f32*sum|term| (+ subnormal slack), the bound for sequential f32 summation; cosine with a zero vector is gated in SQL (it hits the general ORDER-BY-with-NULL defect).", "4 C24"),
 "C25": ("exploration", "proptest insert/delete/vacuum/reopen/search histories on PersistentHnswIndex vs a map of live vectors",
         "Generated histories (dims 2..8, m 2..16, harness-chosen levels, deletion of the entry point, re-insert, vacuum, sync+reopen); each search must return <= k distinct live row ids sorted by true distance, non-empty when a live vector exists, exact top-k when live <= ef, identical before and after reopen; SQ8 decode within one quantisation step.",
         "Level-choice randomness is supplied by the harness. While the listed finding (back-links dropped once a neighbour list is full) is open, exact-recall is not asserted on indexes that have had more than 33 inserts.", "4 C25"),
 "C12": ("exploration", "proptest SQL histories; invariant over the history (every generated id exceeds every value the column ever held)",
         "Generated histories on AUTO_INCREMENT tables with omitted/NULL ids, explicit ids above and below the counter, deletes of the maximum, TRUNCATE, ROLLBACK / ROLLBACK TO, checkpoint and reopen; each generated id must be greater than every id observed earlier (committed or rolled back) and ids of one statement distinct.",
         "Generated ids are identified by differencing the table before and after the INSERT; statements mixing explicit and generated ids only move the counter (their defect is listed under C04).", "4 C12"),
 "C21": ("exploration", "proptest DDL+DML histories with reopen vs a relational reference model",
         "Generated CREATE/DROP TABLE, CREATE/DROP INDEX, TRUNCATE, ALTER TABLE ADD/DROP/RENAME COLUMN interleaved with DML and reopen; the model predicts column sets, rows, index-probe answers and affected counts after every statement.",
         "ADD COLUMN with DEFAULT on populated tables and DROP of key/indexed columns are not generated. Listed findings gate ALTER on populated / indexed tables, which leaves DDL on fresh tables, index create/drop with backfill, and table create/drop in the generated search.", "4 C21"),
 "C41": ("exploration", "exhaustive enumeration of all 3,652,059 dates of years 1..9999 + proptest SQL batches vs an enumerated calendar oracle",
         "Every date goes through the literal parser, every internal converter (via the H2 hook) and the renderer with parse-back; all 86,400 seconds on boundary dates through TIME/TIMESTAMP parsing; invalid field combinations must be rejected; generated whole years go through SQL CAST / date functions / INSERT+SELECT / DEFAULT literals.",
         "Oracle = day-by-day enumeration of the proleptic Gregorian calendar, cross-checked at start-up against a closed-form formula; converters are compared up to their own fixed epoch offset. Needs hook H2 (verif_api::calendar).", "4 C41"),
 "C20": ("exploration", "proptest function/operator applications through SQL vs reference implementations written from the README",
         "Each case applies one documented function, CAST, CASE or an arithmetic tree to generated arguments (Unicode strings, boundary integers, exactly representable floats, dates of years 1..9999, NULL in any position), also through UPDATE SET; values must match the reference, NULL-in gives NULL-out for strict functions, integer overflow must be an error, division by zero NULL or error.",
         "Where the README is silent the domain is restricted rather than guessed (documented next to each function); the check caps its own address space so a runaway allocation cannot take the machine down.", "4 C20"),
 "C09": ("exploration", "proptest SQL histories over constrained schemas vs a relational model (accept/reject in both directions)",
         "Generated schemas with PRIMARY KEY, UNIQUE, NOT NULL, column CHECKs and FOREIGN KEYs (NO ACTION/RESTRICT/CASCADE) and histories with key updates, delete-then-reinsert, parent deletes and transactions; each write must be accepted iff the model's resulting state satisfies every constraint (wrongly accepted and wrongly rejected are both failures).",
         "CHECK grammar: comparisons with pool literals joined by AND/OR (three-valued: passes unless FALSE); single-column keys; ON DELETE SET NULL, NULL primary keys and checking-order-dependent statements are not generated. Listed findings gate CHECKs on text, CHECKs with =/<>, and FK-column UPDATEs.", "4 C09"),
 "C03": ("fault_enumeration", "proptest histories over the Wal API vs a model log + file-level fault enumeration (cut / flip / zero-fill / zero-extend), recovery compared page by page",
         "Generated write/batch/sync/rotate/truncate/checkpoint/reopen-append histories on a 4..8-page space; every resulting segment file is then cut at frame boundaries +-1, header ends +-1 and interior offsets, byte-flipped and zero-filled; Wal::recover / recover_for_file / replay_segments_to_storage / read_page must yield exactly the longest intact frame prefix in write order.",
         "Faults are applied after the history (the property's quantifier); the expected prefix is computed from the model log and the documented frame layout, not through TurDB.", "4 C03"),
 "C28": ("exploration", "proptest operation sequences vs std BTreeMap (model-based), forward/reverse/seek scans, re-instantiation from persisted root and hint, BTreeReader over an mmap copy",
         "Generated insert / insert_if_not_exists / insert_append / update / delete / lookup / cursor sequences over seven adversarial key shapes (shared prefixes, 500-2000-byte keys, bands) with values up to 3000 bytes; every return value and every scan is compared with an ordered-map model after every step.",
         "Cells are limited to 4 KiB (what the SQL layer produces given the TOAST threshold); insert_append only with keys above the maximum, as its contract requires.", "4 C28"),
 "C29": ("exploration", "proptest operation sequences + structural page walker after every mutating step (invariant over the history)",
         "Same sequences as C28; after each mutation a walker independent of the tree's search code checks page types, slot/cell areas (inside the page, disjoint), slot prefixes, strictly increasing keys, separator bounds, equal leaf depth, leaf chain = in-order leaves, no page reachable twice.",
         "The walker reads raw page bytes through the public page/leaf/interior accessors; empty leaves are legal as the module documentation says.", "4 C29"),
 "C04": ("exploration", "proptest SQL histories with lifecycle operations; metamorphic oracle (observation before == after) + model for later statements",
         "Generated DDL+DML histories with checkpoint(), PRAGMA wal_checkpoint, close+open and drop+open at random positions, WAL on/off; the full observation of every table (rows, COUNT(*), index probes) must be identical across each lifecycle operation and later writes must be accepted/rejected (incl. AUTO_INCREMENT values) as on a never-reopened database.",
         "Generator features named by open findings (C04 and the shared DML findings of C05) are switched off; counts are in the evidence.", "4 C04"),
 "C06": ("exploration", "proptest SQL histories; metamorphic oracle: a statement that returns Err leaves the full observation unchanged",
         "Generated histories in which duplicate keys, NULLs into NOT NULL columns and multi-row statements failing at a later row are frequent; whenever execute returns Err the observation (rows, COUNT(*), index probes of every table) after it must equal the one before it.",
         "AUTO_INCREMENT counters are not part of the compared state. The one listed finding (multi-row INSERT failing at row k>=2) is excluded from generation and shown by its witness.", "4 C06"),
 "C07": ("exploration", "proptest transaction histories; metamorphic oracle (observation at BEGIN/SAVEPOINT == after ROLLBACK/ROLLBACK TO) + model for later writes",
         "Generated BEGIN/COMMIT/ROLLBACK/SAVEPOINT/RELEASE/ROLLBACK TO histories incl. dropping the handle inside a transaction, on tables with INT, TEXT or no primary key, indexed and unindexed; state after rollback must equal the saved state, and later inserts/updates must be accepted or rejected as the relational model says.",
         "Rollbacks of transactions that deleted or updated rows are listed findings and excluded from generation (witnessed), which leaves insert-only and empty rollbacks, savepoint bookkeeping and commits in the generated search.", "4 C07"),
 "C33": ("exploration", "proptest row sequences through RowSerde (one buffer), PartitionSpiller (memory / spilled / appended) and the subquery SpillableBuffer",
         "Generated sequences of 1..12 rows of 0..64 columns over every Value / OwnedValue variant; rows must decode in order with equal values and types, offsets must equal the running row_size sum and end at the buffer end; one case in ten also pushes the rows through the two file-backed spill paths with budgets that force and avoid spilling.",
         "Any NaN read back for a NaN is accepted (single NAN discriminant is documented). File-backed paths run on 10% of the cases for cost.", "4 C33"),
 "C32": ("exploration", "proptest JSON ASTs rendered to text vs serde_json (independent oracle) and vs the AST through JSONB lookups",
         "Generated documents to depth 8 (duplicate/unsorted/empty/Unicode keys, every escape form incl. surrogate pairs, numbers with sign/fraction/exponent, strings at the 65535-byte field limit) are parsed, encoded to JSONB (parser and JsonbBuilder), and compared value by value: as_value, get per key, array_get per index, iterators, absent keys, get_path == stepwise get, OwnedValue wrappers, and to_json_string re-parsed by serde_json.",
         "Nested strings/keys over 65535 bytes are gated (open finding). Nesting is bounded at 8 (unbounded recursion belongs to C22). Duplicate keys: any written value is accepted.", "4 C32"),
 "C31": ("exploration", "proptest schemas x rows through the record format (round trip by typed setters/getters and by the OwnedValue glue; reset-vs-fresh byte equality)",
         "Generated schemas of 1..64 columns over all 32 DataTypes with two rows each (NULLs, type limits, empty strings, rows whose variable data reaches the u16 offset limit); every value is written with its typed RecordBuilder setter and read with the typed RecordView getter, the same rows go through build_record_from_values / _with_builder / _into_buffer and extract_row_from_record, and a builder reused after reset() or via RecordBuilderState must produce the bytes of a fresh builder.",
         "OwnedValue has no range variant, so range columns are non-NULL only in the typed path; rows over 65535 bytes of variable data may be refused. 17-byte blobs starting with 0xFE are gated (open finding).", "4 C31"),
 "C05": ("exploration", "proptest stateful SQL histories vs a relational reference model (results + full observation after every statement)",
         "Generated schemas and INSERT/UPDATE/DELETE/TRUNCATE histories; after every statement the affected-row count, RETURNING rows, SELECT * multiset, COUNT(*) and index probes are compared with an in-harness relational model; listed findings are excluded from generation by their trigger tags (gates) and demonstrated by witness replays.",
         "The model implements the unambiguous core of SQL DML (3-valued WHERE, end-of-statement constraint checking; statements whose verdict depends on checking order are not generated). Generator features named by open findings are switched off; their count is in the evidence.", "4 C05"),
 "C26": ("exploration", "proptest pairs of composite keys vs an independent value order (order-preservation, injectivity, decode round-trip)",
         "Generated pairs of 1..3-column keys over every encodable type, half of them one nudge apart so encodings share long prefixes; memcmp order must equal the documented value order, equal keys only for equal values, decode_key must invert and consume all bytes.",
         "The value order is the one written in the module documentation of src/encoding/key.rs; pairs the documentation does not order are only checked for injectivity. OwnedValue->key conversion inside Database is covered by the SQL-level index checks (C10), not here.", "4 C26"),
 "C30": ("exploration", "proptest sorted key sets vs plain binary search (differential) + bracket containment for AVX2 and scalar narrowing",
         "Generated well-formed leaf pages (0..400 keys with heavy 4-byte-prefix ties, short keys, high-bit prefixes); every key, its neighbours and generated probes are looked up and compared with a plain binary search; both prefix-narrowing variants must return a bracket containing the probe's prefix class.",
         "Pages are built with LeafNodeMut::insert_at_end; the NEON variant cannot be compiled on this x86_64 sandbox.", "4 C30"),
 "C27": ("exploration", "exhaustive enumeration + proptest generated values/byte strings vs an independent format specification",
         "Every value with a 1..4-byte encoding is enumerated (quick), the 5-byte class too (thorough); the 9-byte class and byte strings are covered by boundary patterns and generated cases. Round-trip, canonical length, bounds (consumed <= len) and agreement with a reference decoder are checked for each.",
         "The 9-byte class is sampled, not exhausted; the reference decoder in the harness is written from the format description.", "4 C27"),
}

def main():
    props = [json.loads(l) for l in open(os.path.join(ROOT, "properties.jsonl"))]
    hooks_commits = []
    hc = os.path.join(ROOT, "HOOK_COMMITS.txt")
    if os.path.exists(hc):
        hooks_commits = [l.split()[0] for l in open(hc) if l.strip() and not l.startswith("#")]
    checks, na = [], []
    for p in props:
        pid = p["id"]
        if pid in BUILT:
            cat, tech, text, note, ref = BUILT[pid]
            checks.append({
                "property_id": pid,
                "quick_cmd": f"./run {pid} quick",
                "thorough_cmd": f"./run {pid} thorough",
                "evidence_file": f"/verif/evidence/{pid}.json",
                "replay_cmd_template": f"./run {pid} --replay {{path}}",
                "engine": "harness",
                "level_claimed": {"category": cat, "text": text, "design_ref": f"DESIGN.md §{ref}"},
                "level_note": note,
                "technique": tech,
            })
        else:
            na.append({"property_id": pid, "reason": "check not built yet in this round (planned in DESIGN.md §4); not claimed until it runs"})
    m = {
        "version": 1,
        "setup_cmd": "./run setup",
        "hooks": {
            "guard": "kahflane_turdb_verif",
            "enable": "RUSTFLAGS=--cfg kahflane_turdb_verif (set in /verif/harness/.cargo/config.toml; every check builds /repo as a path dependency with it)",
            "baseline_off_cmd": "/verif/tools/baseline.sh",
            "source_commits": hooks_commits,
            "add_only": True,
        },
        "engines": [
            {"name": "harness", "path": "/verif/harness", "serves_properties": sorted(BUILT), "kind_free_text": "cargo workspace: vcore (driver, findings, evidence), vcheck (proptest/model checks), vsched (shuttle schedules), vcrash (crash-point enumeration), fuzz (libFuzzer)"},
        ],
        "checks": checks,
        "not_applicable": na,
        "notes": "Technique family: property-based testing and fuzzing. Exit codes: 0 held (KNOWN-FINDING lines possible), 1 VIOLATION, 2 inconclusive/infrastructure. Known findings: /verif/KNOWN_FINDINGS.txt.",
    }
    json.dump(m, open(os.path.join(ROOT, "MANIFEST.json"), "w"), indent=1)
    print(f"{len(checks)} checks, {len(na)} not applicable")

if __name__ == "__main__":
    main()
