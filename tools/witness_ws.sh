#!/bin/bash
# tools/witness_ws.sh <Cnn> <signature substring> <name> : run the quick tier so that only failures whose
# signature contains the substring count, adopt the shrunk replay as findings/<Cnn>/<name>.json
# (works inside any copy of the verif tree: paths are relative to this script)
P=$1; W=$2; N=$3
ROOT=$(cd "$(dirname "$0")/.." && pwd)
cd "$ROOT" || exit 2
OUT=$(VERIF_DEV_WANT_SIG="$W" ./run "$P" quick 2>&1)
R=$(echo "$OUT" | grep '^VIOLATION' | head -1 | sed 's/.*replay=//')
[ -z "$R" ] && { echo "no violation found for $W"; echo "$OUT" | tail -3; exit 1; }
mkdir -p "$ROOT/findings/$P"
cp "$R" "$ROOT/findings/$P/$N.json"
python3 -c "import json;d=json.load(open('$ROOT/findings/$P/$N.json'));print('sig=',d['sig']);print(d['detail'][:300])"
