#!/bin/bash
# tools/seeded_confirm.sh <ID>: confirms a seeded change produced by a sub-agent in its scratch worktree
# /tmp/mut/<ID>/wt (moved to /repo's HEAD first): (1) the patch applies and builds, (2) the pinned 668-test
# baseline passes with it, (3) the demonstration fails with the patch and passes without it.
# Writes /tmp/mut/<ID>/confirm.json. Nothing is touched in /repo.
ID=$1; D=/tmp/mut/$ID; WT=$D/wt
export CARGO_NET_OFFLINE=true RUST_BACKTRACE=0; unset RUSTFLAGS
cd $WT || exit 2
git checkout -q -- . ; git clean -fdq -e target; git checkout -q --detach $(git -C /repo rev-parse HEAD) || exit 2
demo=$(ls $D/demo/*.rs | head -1); dn=$(basename $demo .rs)
git apply $D/patch.diff || { echo "{\"id\":\"$ID\",\"applies\":false}" > $D/confirm.json; exit 1; }
BASELINE_REPO=$WT /verif/tools/baseline.sh > $D/confirm_baseline.txt 2>&1; bl=$?
cp $demo tests/
cargo test --offline --test $dn > $D/confirm_demo_patched.txt 2>&1; dp=$?
git apply -R $D/patch.diff
cargo test --offline --test $dn > $D/confirm_demo_clean.txt 2>&1; dc=$?
rm -f tests/$dn.rs
echo "{\"id\":\"$ID\",\"applies\":true,\"baseline_with_patch_exit\":$bl,\"baseline_line\":\"$(grep baseline: $D/confirm_baseline.txt)\",\"demo_with_patch_exit\":$dp,\"demo_without_patch_exit\":$dc,\"confirmed\":$([ $bl = 0 ] && [ $dp != 0 ] && [ $dc = 0 ] && echo true || echo false)}" > $D/confirm.json
cat $D/confirm.json
