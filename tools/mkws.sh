#!/bin/bash
# tools/mkws.sh <name>: scratch workspace /tmp/wa_<name>/{repo (git worktree of /repo HEAD), verif (copy)}
set -e
N=$1; W=/tmp/wa_$N
rm -rf $W; mkdir -p $W
git -C /repo worktree prune
git -C /repo worktree add -q --detach $W/repo HEAD
rsync -a --exclude harness/target --exclude .git --exclude replays /verif/ $W/verif/
sed -i "s|path = \"/repo\"|path = \"$W/repo\"|" $W/verif/harness/*/Cargo.toml
sed -i "s|^export CARGO_NET_OFFLINE=true|export CARGO_NET_OFFLINE=true VERIF_ROOT=$W/verif REPO_ROOT=$W/repo|" $W/verif/run
echo $W
