#!/usr/bin/env python3
"""splitdiff.py <full.diff> <out.diff> <file:hunkindex,...>  — pick hunks (0-based per file) from a unified diff.
   e.g. splitdiff.py all.diff a.diff src/x.rs:0,2 src/y.rs:1"""
import sys, re
src, out = sys.argv[1], sys.argv[2]
want = {}
for a in sys.argv[3:]:
    f, idx = a.rsplit(':', 1)
    want[f] = set(int(i) for i in idx.split(','))
files = re.split(r'(?m)^(?=diff --git )', open(src).read())
res = []
for f in files:
    if not f.strip(): continue
    name = re.match(r'diff --git a/(\S+)', f).group(1)
    if name not in want: continue
    parts = re.split(r'(?m)^(?=@@ )', f)
    head, hunks = parts[0], parts[1:]
    sel = [h for i, h in enumerate(hunks) if i in want[name]]
    if sel: res.append(head + ''.join(sel))
open(out, 'w').write(''.join(res))
