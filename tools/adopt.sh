#!/bin/bash
# tools/adopt.sh <replay.json> <Cnn> <name> : copy a shrunk replay file to findings/<Cnn>/<name>.json
set -e
mkdir -p /verif/findings/$2
cp "$1" /verif/findings/$2/$3.json
python3 -c "import json,sys;d=json.load(open('/verif/findings/$2/$3.json'));print('sig=',d['sig']);print(d['detail'][:400])"
