#!/usr/bin/env python3
"""tools/harvest_sql.py [repo_root] [out_dir]

Harvest every SQL string literal from <repo>/tests/**/*.rs, <repo>/examples/*.rs and the
SQL of <repo>/README.md into <out_dir>/<hash>.sql (one statement per file; the seed corpus
of C22's `sql_bytes` generator and of the libFuzzer target). format!-placeholders are
replaced by the literal 1. Deterministic: file names are content hashes.
"""
import hashlib, os, re, sys

repo = sys.argv[1] if len(sys.argv) > 1 else "/repo"
out = sys.argv[2] if len(sys.argv) > 2 else "/verif/corpus/sql"
KW = ("SELECT", "INSERT", "UPDATE", "DELETE", "CREATE", "DROP", "ALTER", "PRAGMA", "BEGIN", "COMMIT", "ROLLBACK",
      "SAVEPOINT", "RELEASE", "EXPLAIN", "WITH", "TRUNCATE", "SET", "ANALYZE", "VACUUM", "REPLACE", "MERGE", "SHOW", "START", "END")

STR = re.compile(r'r(#+)"(.*?)"\1|r"(.*?)"|"((?:[^"\\]|\\.)*)"', re.S)

def unescape(s):
    s = re.sub(r'\\\n\s*', '', s)  # line continuation
    rep = {'\\n': '\n', '\\t': '\t', '\\"': '"', "\\'": "'", '\\\\': '\\', '\\r': '\r', '\\0': '\0'}
    return re.sub(r'\\[nt"\'\\r0]', lambda m: rep[m.group(0)], s)

def statements_of_rust(text):
    for m in STR.finditer(text):
        if m.group(2) is not None:
            s = m.group(2)
        elif m.group(3) is not None:
            s = m.group(3)
        else:
            s = unescape(m.group(4))
        yield s

def looks_sql(s):
    t = s.lstrip().upper()
    return any(t.startswith(k + " ") or t == k or t.startswith(k + "\n") or t.startswith(k + ";") for k in KW) and len(s) < 20000

def clean(s):
    s = s.replace("{{", "{").replace("}}", "}")
    s = re.sub(r'\{[A-Za-z0-9_:?.#<>+*$ ]*\}', '1', s)
    return s.strip()

found = {}
def add(s):
    s = clean(s)
    if not s or not looks_sql(s):
        return
    parts = [s]
    if ";" in s:
        parts += [p.strip() for p in s.split(";") if p.strip()]
    for p in parts:
        if looks_sql(p):
            found[hashlib.sha1(p.encode("utf-8", "replace")).hexdigest()[:12]] = p

files = []
for root in ("tests", "examples", "benches"):
    for d, _, fs in os.walk(os.path.join(repo, root)):
        for f in sorted(fs):
            if f.endswith(".rs") or f.endswith(".sql"):
                files.append(os.path.join(d, f))
for f in sorted(files):
    try:
        text = open(f, encoding="utf-8", errors="replace").read()
    except OSError:
        continue
    if f.endswith(".sql"):
        for p in text.split(";"):
            add(p)
        continue
    for s in statements_of_rust(text):
        add(s)
readme = os.path.join(repo, "README.md")
if os.path.exists(readme):
    text = open(readme, encoding="utf-8", errors="replace").read()
    for block in re.findall(r'```(?:sql|SQL)?\n(.*?)```', text, re.S):
        for p in block.split(";"):
            p = "\n".join(l for l in p.splitlines() if not l.strip().startswith("--"))
            add(p)
        for s in statements_of_rust(block):
            add(s)
os.makedirs(out, exist_ok=True)
for old in os.listdir(out):
    if old.endswith(".sql"):
        os.remove(os.path.join(out, old))
for h, s in sorted(found.items()):
    with open(os.path.join(out, h + ".sql"), "w", encoding="utf-8") as fh:
        fh.write(s)
print(f"{len(found)} statements from {len(files)} files -> {out}")
