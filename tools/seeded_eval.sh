#!/bin/bash
# tools/seeded_eval.sh <ID> <tier> <check>...: applies seeded/<ID>/patch.diff (or /tmp/mut/<ID>/patch.diff) to /repo, runs the
# given checks, and reverts /repo (git checkout -- .). Prints one line per check: caught / missed.
ID=$1; TIER=$2; shift 2
P=/verif/seeded/$ID/patch.diff; [ -f $P ] || P=/tmp/mut/$ID/patch.diff
cd /verif
git -C /repo diff --quiet || { echo "/repo has local changes"; exit 2; }
git -C /repo apply $P || { echo "patch does not apply"; exit 2; }
for c in "$@"; do
  out=$(VERIF_SEED=${VERIF_SEED:-1} ./run $c $TIER 2>&1); rc=$?
  v=$(echo "$out" | grep -E '^VIOLATION' | head -2 | tr '\n' ' ')
  s=$(echo "$out" | grep -E '^\[C' | tail -1)
  echo "$ID $c $TIER exit=$rc $( [ $rc = 1 ] && echo CAUGHT || echo missed ) $v $s"
  if [ $rc = 1 ]; then r=$(echo "$v" | sed 's/.*replay=\([^ ]*\).*/\1/'); python3 -c "import json,sys;d=json.load(open('$r'));print('   sig:',d['sig']);print('   ',d['detail'][:300].replace('\n',' | '))" 2>/dev/null; fi
done
git -C /repo checkout -- .
