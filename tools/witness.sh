#!/bin/bash
# tools/witness.sh <Cnn> <gate> [name]: re-open one gate (all others stay as KNOWN_FINDINGS.txt says), run the
# quick tier, and adopt the shrunk failure as findings/<Cnn>/<name|gate>.json
P=$1; G=$2; N=${3:-$2}
cd /verif
OUT=$(VERIF_DEV_WANT_SIG=${WANT:-$G} VERIF_DEV_OPEN_GATES=$G VERIF_DEV_GATES=${EXTRA_GATES:-} ./run $P quick 2>&1)
R=$(echo "$OUT" | grep '^VIOLATION' | head -1 | sed 's/.*replay=//')
[ -z "$R" ] && { echo "no violation found with gate $G open"; echo "$OUT" | tail -3; exit 1; }
SIG=$(python3 -c "import json;print(json.load(open('$R'))['sig'])")
echo "sig: $SIG"
tools/adopt.sh $R $P $N | tail -n +2 | head -8
