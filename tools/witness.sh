#!/bin/bash
# tools/witness.sh <Cnn> <gate> [all-gates-file]: open exactly one gate (all others of the list closed), run the
# quick tier, and adopt the shrunk failure as findings/<Cnn>/<gate>.json if its signature mentions the gate.
P=$1; G=$2; ALL=$(cat ${3:-/tmp/${P,,}gates})
OTHERS=$(echo $ALL | tr ',' '\n' | grep -v "^$G\$" | paste -sd,)
cd /verif
OUT=$(VERIF_DEV_GATES=$OTHERS VERIF_NO_FINDINGS=1 ./run $P quick 2>&1)
R=$(echo "$OUT" | grep '^VIOLATION' | head -1 | sed 's/.*replay=//')
[ -z "$R" ] && { echo "no violation found with gate $G open"; echo "$OUT" | tail -3; exit 1; }
SIG=$(python3 -c "import json;print(json.load(open('$R'))['sig'])")
echo "sig: $SIG"
tools/adopt.sh $R $P $G | tail -n +2 | head -8
